//! C17: texts enumerated by LabelGen.tla run through Label::from_str / to_string.

use crate::real::guarded;
use serde_json::{json, Value};
use sodg::{Label, Sodg};
use std::collections::BTreeMap;
use std::io::{BufRead, BufReader, Write};
use std::path::PathBuf;
use std::str::FromStr;

const SYMS: [(&str, char); 16] = [
    ("alpha", 'α'), ("d0", '0'), ("d1", '1'), ("d5", '5'), ("plus", '+'), ("a", 'a'), ("Z", 'Z'),
    ("rho", 'ρ'), ("euro", '€'), ("phi", '𝜑'), ("sp", ' '), ("bsl", '\\'), ("quo", '"'), ("apo", '\''), ("adig", '٣'), ("ctl", '\u{1}'),
];

fn ch(sym: &str) -> char {
    SYMS.iter().find(|(s, _)| *s == sym).map(|(_, c)| *c).expect("unknown symbol")
}

fn sym(c: char) -> &'static str {
    SYMS.iter().find(|(_, x)| *x == c).map(|(s, _)| *s).unwrap_or("other")
}

fn text_of(v: &Value) -> String {
    v.as_array().unwrap().iter().map(|s| ch(s.as_str().unwrap())).collect()
}

fn syms_of(s: &str) -> Vec<&'static str> {
    s.chars().map(sym).collect()
}

/// the label value a vector denotes, built directly
fn built(l: &Value) -> Label {
    match l["k"].as_str().unwrap() {
        "greek" => Label::Greek(ch(l["c"].as_str().unwrap())),
        "alpha" => Label::Alpha(l["n"].as_u64().unwrap() as usize),
        "str" => {
            let mut a = [' '; 8];
            for (i, s) in l["s"].as_array().unwrap().iter().enumerate() {
                a[i] = ch(s.as_str().unwrap());
            }
            Label::Str(a)
        }
        k => panic!("bad label kind {k}"),
    }
}

/// a label value in the vectors' symbolic form (trailing padding of Str dropped, inner blanks kept)
fn symbolic(l: &Label) -> Value {
    match l {
        Label::Greek(c) => json!({"k": "greek", "c": sym(*c)}),
        Label::Alpha(n) => json!({"k": "alpha", "n": n}),
        Label::Str(a) => {
            let s: String = a.iter().collect();
            json!({"k": "str", "s": syms_of(s.trim_end_matches(' '))})
        }
    }
}

pub fn run(paths: &[PathBuf], obs_out: &PathBuf) -> Value {
    let mut out = std::io::BufWriter::new(std::fs::File::create(obs_out).unwrap());
    let mut vectors = 0usize;
    let mut mismatches = 0usize;
    let mut by_class: BTreeMap<String, usize> = BTreeMap::new();
    let mut by_kind: BTreeMap<String, usize> = BTreeMap::new();
    let mut samples = vec![];
    for p in paths {
        let f = std::fs::File::open(p).unwrap();
        for line in BufReader::new(f).lines() {
            let line = line.unwrap();
            let t = line.trim();
            if !t.starts_with("\"{") {
                continue;
            }
            let inner: String = serde_json::from_str(t).unwrap();
            let v: Value = serde_json::from_str(&inner).unwrap();
            vectors += 1;
            let text = text_of(&v["text"]);
            let cls = v["cls"].as_str().unwrap();
            *by_class.entry(cls.to_string()).or_default() += 1;
            if samples.len() < 4 && vectors % 3989 == 11 {
                samples.push(json!({"text": text, "vector": v}));
            }
            let parsed = guarded(|| Label::from_str(&text));
            let observed = match &parsed {
                Err(_) => json!({"k": "panic"}),
                Ok(Err(_)) => json!({"k": "err"}),
                Ok(Ok(l)) => {
                    let printed = guarded(|| l.to_string()).unwrap_or_else(|_| "<panic>".into());
                    let mut back = true;
                    let mut lookup = true;
                    if cls == "ok" {
                        let b = built(&v["label"]);
                        *by_kind.entry(v["label"]["k"].as_str().unwrap().to_string()).or_default() += 1;
                        // label -> text -> label on the directly built value
                        let bt = guarded(|| b.to_string()).unwrap_or_default();
                        back = bt == text && matches!(guarded(|| Label::from_str(&bt)), Ok(Ok(x)) if x == b);
                        // an edge bound under the parsed name is found under the built one, and vice versa
                        lookup = guarded(|| {
                            let mut g: Sodg<2> = Sodg::empty(3);
                            g.add(0);
                            g.add(1);
                            g.add(2);
                            g.bind(0, 1, *l);
                            g.bind(1, 2, b);
                            g.kid(0, b) == Some(1) && g.kid(1, *l) == Some(2) && g.kids(0).count() == 1
                        })
                        .unwrap_or(false);
                    }
                    json!({"k": "ok", "label": symbolic(l), "printed": syms_of(&printed), "back": back, "lookup": lookup})
                }
            };
            let good = match cls {
                "unspecified" => true,
                "err" => observed["k"] == "err",
                _ => {
                    observed["k"] == "ok"
                        && observed["label"] == v["label"]
                        && observed["printed"] == v["text"]
                        && observed["back"] == json!(true)
                        && observed["lookup"] == json!(true)
                }
            };
            if !good {
                mismatches += 1;
                writeln!(out, "{}", json!({"text": v["text"], "string": text, "observed": observed})).unwrap();
            }
        }
    }
    json!({"vectors": vectors, "mismatches": mismatches, "by_class": by_class, "ok_labels_by_variant": by_kind, "samples": samples})
}
