//! Abstract states (the specification's graph record) and the projection of a real
//! object onto the same shape.  The harness never computes what is *right*: expected
//! states always come from TLC's output; this module only parses, projects and compares.

use crate::real::{hex_text, label_text, G};
use serde_json::{json, Value};
use sodg::VerifSnapshot;
use std::collections::{BTreeMap, BTreeSet, HashMap};

#[derive(Clone, PartialEq, Eq, Hash, Debug)]
pub struct Abs {
    pub cap: usize,
    pub present: Vec<usize>,
    pub edges: Vec<Vec<(String, usize)>>,
    /// data as printed hex text, None when the vertex has no data
    pub val: Vec<Option<String>>,
    /// 0 empty, 1 stored (unread), 2 taken
    pub st: Vec<u8>,
    pub groups: Vec<Vec<usize>>,
    pub nextv: usize,
}

/// token -> concrete value maps of one run
#[derive(Clone, Debug, Default)]
pub struct Tokens {
    pub labels: HashMap<String, String>,
    pub vals: HashMap<String, String>,
}

impl Tokens {
    pub fn from_json(v: &Value) -> Tokens {
        let mut t = Tokens::default();
        for (k, x) in v["labels"].as_object().unwrap() {
            t.labels.insert(k.clone(), x.as_str().unwrap().to_string());
        }
        for (k, x) in v["vals"].as_object().unwrap() {
            t.vals.insert(k.clone(), x.as_str().unwrap().to_string());
        }
        t
    }
    pub fn label(&self, tok: &str) -> String {
        self.labels.get(tok).cloned().unwrap_or_else(|| crate::exec::unplace(tok))
    }
    pub fn val(&self, tok: &str) -> String {
        self.vals.get(tok).cloned().unwrap_or_else(|| tok.to_string())
    }
    /// the byte string a value token stands for (a representation request "~v" is not part of the datum)
    pub fn datum(&self, tok: &str) -> String {
        let v = self.val(tok);
        v.strip_suffix("~v").map(|x| x.to_string()).unwrap_or(v)
    }
}

fn idx_map<'a>(v: &'a Value, cap: usize) -> Vec<&'a Value> {
    // a TLA+ function over 0..cap-1 arrives as an object with string keys
    // (or as an array when TLC recognises a sequence, which cannot happen for a 0-based domain)
    let mut out = Vec::with_capacity(cap);
    match v {
        Value::Object(m) => {
            for i in 0..cap {
                out.push(m.get(&i.to_string()).expect("missing index"));
            }
        }
        Value::Array(a) => {
            for x in a {
                out.push(x);
            }
        }
        _ => panic!("bad function value {v}"),
    }
    out
}

pub fn st_code(s: &str) -> u8 {
    match s {
        "empty" => 0,
        "stored" => 1,
        "taken" => 2,
        _ => panic!("bad st {s}"),
    }
}

impl Abs {
    pub fn from_spec(v: &Value, tk: &Tokens) -> Abs {
        let cap = v["cap"].as_u64().unwrap() as usize;
        let mut present: Vec<usize> =
            v["present"].as_array().unwrap().iter().map(|x| x.as_u64().unwrap() as usize).collect();
        present.sort_unstable();
        let edges = idx_map(&v["edges"], cap)
            .into_iter()
            .map(|es| {
                es.as_array()
                    .unwrap()
                    .iter()
                    .map(|e| (tk.label(e[0].as_str().unwrap()), e[1].as_u64().unwrap() as usize))
                    .collect()
            })
            .collect();
        let val = idx_map(&v["val"], cap)
            .into_iter()
            .map(|x| {
                let s = x.as_str().unwrap();
                if s == "none" {
                    None
                } else {
                    Some(tk.datum(s))
                }
            })
            .collect();
        let st = idx_map(&v["st"], cap).into_iter().map(|x| st_code(x.as_str().unwrap())).collect();
        let mut groups: Vec<Vec<usize>> = v["groups"]
            .as_array()
            .unwrap()
            .iter()
            .map(|gr| {
                let mut m: Vec<usize> =
                    gr.as_array().unwrap().iter().map(|x| x.as_u64().unwrap() as usize).collect();
                m.sort_unstable();
                m
            })
            .collect();
        groups.sort();
        Abs { cap, present, edges, val, st, groups, nextv: v["nextv"].as_u64().unwrap() as usize }
    }

    /// JSON in the trace format (sequences of pairs, no integer-keyed objects)
    pub fn to_trace_json(&self) -> Value {
        json!({
            "cap": self.cap,
            "alive": self.present,
            "kids": self.present.iter().map(|v| json!([v, self.edges[*v].iter().map(|(a,t)| json!([a,t])).collect::<Vec<_>>()])).collect::<Vec<_>>(),
            "dat": self.present.iter().map(|v| json!([v, self.val[*v].clone().unwrap_or_else(|| "none".to_string())])).collect::<Vec<_>>(),
            "unread": self.present.iter().filter(|v| self.st[**v] == 1).collect::<Vec<_>>(),
            "groups": self.groups,
            "nextv": self.nextv,
        })
    }
}

/// Which fields of two abstract states differ: observable ones first, latent ones after.
#[derive(Clone, Debug, Default, PartialEq, Eq, Hash, PartialOrd, Ord)]
pub struct Diff {
    pub observable: BTreeSet<&'static str>,
    pub latent: BTreeSet<&'static str>,
}

impl Diff {
    pub fn none(&self) -> bool {
        self.observable.is_empty() && self.latent.is_empty()
    }
}

pub fn diff(expected: &Abs, got: &Abs) -> Diff {
    let mut d = Diff::default();
    if expected.present != got.present {
        // which way: a vertex the model keeps is gone (collected early / collaterally), or one survives
        if expected.present.iter().any(|v| !got.present.contains(v)) {
            d.observable.insert("alive-missing");
        }
        if got.present.iter().any(|v| !expected.present.contains(v)) {
            d.observable.insert("alive-surplus");
        }
    }
    let both: Vec<usize> =
        expected.present.iter().copied().filter(|v| got.present.contains(v)).collect();
    for v in &both {
        if expected.edges[*v] != got.edges[*v] {
            let a: BTreeMap<_, _> = expected.edges[*v].iter().cloned().collect();
            let b: BTreeMap<_, _> = got.edges[*v].iter().cloned().collect();
            if a != b || expected.edges[*v].len() != got.edges[*v].len() {
                d.observable.insert("edges");
            } else {
                d.observable.insert("order");
            }
        }
        if expected.val[*v] != got.val[*v] {
            d.observable.insert("data");
        }
        if expected.st[*v] != got.st[*v] {
            if (expected.st[*v] == 0) != (got.st[*v] == 0) {
                d.observable.insert("data");
            } else {
                d.latent.insert("unread");
            }
        }
    }
    if expected.groups != got.groups {
        d.latent.insert("groups");
    }
    if expected.nextv != got.nextv {
        d.latent.insert("nextv");
    }
    d
}

/// Consistency of the concrete representation, from the hook (used for steering and
/// reported in the evidence; never an alarm on its own).
#[derive(Clone, Debug, Default)]
pub struct Latent {
    pub counter_is_recount: bool,
    pub tags_match_lists: bool,
    pub occupied_slots: usize,
}

pub fn latent_of(s: &VerifSnapshot) -> Latent {
    let mut ok_c = true;
    let mut ok_t = true;
    let mut occ = 0;
    for (b, m) in s.members.iter().enumerate() {
        if b < 2 {
            continue;
        }
        if !m.is_empty() {
            occ += 1;
        }
        let recount = m
            .iter()
            .filter(|v| s.slots.get(**v).and_then(|x| x.as_ref()).map(|x| x.persistence == 1 && x.tag == b).unwrap_or(false))
            .count();
        if s.counters.get(b).copied().unwrap_or(usize::MAX) != recount {
            ok_c = false;
        }
        for v in m {
            if s.slots.get(*v).and_then(|x| x.as_ref()).map(|x| x.tag) != Some(b) {
                ok_t = false;
            }
        }
    }
    for (v, sl) in s.slots.iter().enumerate() {
        if let Some(sl) = sl {
            if sl.tag >= 2 && !s.members.get(sl.tag).map(|m| m.contains(&v)).unwrap_or(false) {
                ok_t = false;
            }
        }
    }
    Latent { counter_is_recount: ok_c, tags_match_lists: ok_t, occupied_slots: occ }
}

/// Project a real object onto the abstract shape.  Observable fields come from the public
/// API (keys, kids); data bytes, read status, the group partition and the allocator
/// position come from the hook (reading data through data() would change the state).
/// `labels` is the label universe used to cross-check kid() against kids().
pub fn project(g: &dyn G, labels: &[String]) -> Result<(Abs, VerifSnapshot), String> {
    let snap = g.snap();
    let cap = snap.capacity;
    let present = g.keys()?;
    let mut sorted = present.clone();
    sorted.sort_unstable();
    if sorted != present {
        return Err(format!("keys() is not ascending: {present:?}"));
    }
    if g.len()? != present.len() {
        return Err(format!("len() = {} but keys() has {} entries", g.len()?, present.len()));
    }
    if g.is_empty()? != present.is_empty() {
        return Err(format!("is_empty() = {} but keys() has {} entries", g.is_empty()?, present.len()));
    }
    let mut edges = vec![vec![]; cap];
    let mut val = vec![None; cap];
    let mut st = vec![0u8; cap];
    let mut by_tag: BTreeMap<usize, Vec<usize>> = BTreeMap::new();
    for v in &present {
        if *v >= cap {
            return Err(format!("keys() lists {v} >= capacity {cap}"));
        }
        let ks = g.kids(*v)?;
        for a in labels {
            let want = ks.iter().find(|(l, _)| l == a).map(|(_, t)| *t);
            let got = g.kid(*v, a)?;
            if want != got {
                return Err(format!("kid({v},{a}) = {got:?} but kids({v}) says {want:?}"));
            }
        }
        edges[*v] = ks;
        if let Some(Some(sl)) = snap.slots.get(*v) {
            let hook_edges: Vec<(String, usize)> =
                sl.edges.iter().map(|(a, t)| (label_text(a), *t)).collect();
            if hook_edges != edges[*v] {
                return Err(format!("kids({v}) disagrees with the stored edges"));
            }
            st[*v] = sl.persistence;
            if sl.persistence != 0 {
                val[*v] = Some(hex_text(&sl.data));
            }
            if sl.tag >= 2 {
                by_tag.entry(sl.tag).or_default().push(*v);
            }
            if sl.tag == 0 {
                return Err(format!("keys() lists {v} whose tag is 0"));
            }
        } else {
            return Err(format!("slot {v} missing"));
        }
    }
    let mut groups: Vec<Vec<usize>> = by_tag.into_values().collect();
    for m in &mut groups {
        m.sort_unstable();
    }
    groups.sort();
    Ok((Abs { cap, present, edges, val, st, groups, nextv: snap.next_v }, snap))
}
