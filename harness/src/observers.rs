//! Read-only observers run at every product state: XML / DOT exports (C18), Debug / Display / v_print /
//! inspect (C20).  Each output is parsed back into facts and compared with the specification state the
//! object is paired with; a difference becomes a witness trace (the call path plus one observer event
//! carrying the parsed facts) that Trace.tla judges.

use crate::exec::{HCall, World};
use crate::model::Abs;
use crate::product::{record_trace, Opts, SpecEv, Summary};
use serde_json::{json, Value};
use std::collections::HashMap;
use std::fs::File;
use std::io::Write;

thread_local! {
    /// canonical (present, sorted edges, data) -> first text printed, per export kind
    static FIRST_TEXT: std::cell::RefCell<HashMap<(String, String), String>> = std::cell::RefCell::new(HashMap::new());
}

/// a printed datum of 64 KiB or more becomes the token the trace uses for such data (real::hex_text); a text of that size
/// that does not parse as dashed hex pairs stays as it is (and will not match)
fn norm_data(text: String) -> String {
    if text.len() < 3 * crate::real::BIG_FROM - 1 {
        return text;
    }
    let mut bytes = Vec::with_capacity(text.len() / 3 + 1);
    for part in text.split('-') {
        match u8::from_str_radix(part, 16) {
            Ok(b) if part.len() == 2 => bytes.push(b),
            _ => return text,
        }
    }
    crate::real::hex_text(&bytes)
}

#[derive(Debug, Clone, PartialEq)]
pub struct Facts {
    pub nodes: Vec<usize>,
    pub edges: Vec<(usize, String, usize)>,
    pub data: Vec<(usize, String)>,
    pub ok: bool,
    pub note: String,
}

impl Facts {
    fn bad(note: &str) -> Facts {
        Facts { nodes: vec![], edges: vec![], data: vec![], ok: false, note: note.to_string() }
    }
    pub fn to_json(&self) -> Value {
        json!({"nodes": self.nodes, "edges": self.edges.iter().map(|(v, a, t)| json!([v, a, t])).collect::<Vec<_>>(),
               "data": self.data.iter().map(|(v, d)| json!([v, d])).collect::<Vec<_>>(), "wellformed": self.ok, "note": self.note})
    }
}

/// what the specification state says the facts are (nodes ascending; edges sorted by (vertex, label))
pub fn expected(s: &Abs) -> Facts {
    let mut edges = vec![];
    let mut data = vec![];
    for v in &s.present {
        for (a, t) in &s.edges[*v] {
            edges.push((*v, a.clone(), *t));
        }
        if let Some(d) = &s.val[*v] {
            data.push((*v, d.clone()));
        }
    }
    Facts { nodes: s.present.clone(), edges, data, ok: true, note: String::new() }
}

fn same_facts(a: &Facts, b: &Facts) -> bool {
    let mut ea = a.edges.clone();
    let mut eb = b.edges.clone();
    ea.sort();
    eb.sort();
    a.ok && b.ok && a.nodes == b.nodes && ea == eb && a.data == b.data
}

pub fn parse_xml(xml: &str) -> Facts {
    let Ok(pkg) = sxd_document::parser::parse(xml) else { return Facts::bad("not well-formed XML") };
    let doc = pkg.as_document();
    let Some(root) = doc.root().children().into_iter().filter_map(|c| c.element()).next() else { return Facts::bad("no root") };
    if root.name().local_part() != "sodg" {
        return Facts::bad("root is not <sodg>");
    }
    let mut f = Facts { nodes: vec![], edges: vec![], data: vec![], ok: true, note: String::new() };
    for c in root.children() {
        let Some(v) = c.element() else { continue };
        if v.name().local_part() != "v" {
            return Facts::bad("unexpected element under <sodg>");
        }
        let Some(id) = v.attribute_value("id").and_then(|s| s.parse::<usize>().ok()) else { return Facts::bad("v without id") };
        f.nodes.push(id);
        for k in v.children() {
            let Some(e) = k.element() else { continue };
            match e.name().local_part() {
                "e" => {
                    let a = e.attribute_value("a").unwrap_or("").to_string();
                    let Some(t) = e.attribute_value("to").and_then(|s| s.parse::<usize>().ok()) else { return Facts::bad("e without to") };
                    f.edges.push((id, a, t));
                }
                "data" => {
                    let text: String = e.children().into_iter().filter_map(|x| x.text()).map(|t| t.text().to_string()).collect();
                    let t = text.trim();
                    // the export prints bytes separated by blanks; "--" stands for the empty byte string
                    let hex = if t == "  " || t.is_empty() || t == "--" { "--".to_string() } else { t.replace(' ', "-") };
                    f.data.push((id, norm_data(hex)));
                }
                _ => return Facts::bad("unexpected element under <v>"),
            }
        }
    }
    f
}

pub fn parse_dot(dot: &str) -> Facts {
    let mut f = Facts { nodes: vec![], edges: vec![], data: vec![], ok: true, note: String::new() };
    for line in dot.lines() {
        let l = line.trim();
        if l.is_empty() || l.starts_with("/*") || l.starts_with("digraph") || l.starts_with("node [") || l.starts_with("edge [") || l == "}" {
            continue;
        }
        if let Some(rest) = l.strip_prefix('v') {
            if let Some(pos) = rest.find("[shape=circle,label=\"ν") {
                let Ok(id) = rest[..pos].parse::<usize>() else { return Facts::bad("bad node id") };
                let after = &rest[pos + "[shape=circle,label=\"ν".len()..];
                let lab: String = after.chars().take_while(|c| c.is_ascii_digit()).collect();
                if lab != id.to_string() {
                    return Facts::bad("node label does not match its id");
                }
                f.nodes.push(id);
                if let Some(p) = l.find("/* ") {
                    let d = l[p + 3..].trim_end_matches("*/").trim();
                    f.data.push((id, norm_data(d.to_string())));
                    if !l.contains("color=\"#f96900\"") {
                        return Facts::bad("data comment without the data colour");
                    }
                } else if l.contains("color=\"#f96900\"") {
                    return Facts::bad("data colour without data");
                }
                continue;
            }
            if let Some(pos) = rest.find(" -> v") {
                let Ok(from) = rest[..pos].parse::<usize>() else { return Facts::bad("bad edge source") };
                let after = &rest[pos + 5..];
                let to: String = after.chars().take_while(|c| c.is_ascii_digit()).collect();
                let Ok(to) = to.parse::<usize>() else { return Facts::bad("bad edge target") };
                let Some(lp) = after.find("[label=\"") else { return Facts::bad("edge without label") };
                // a DOT quoted string: a backslash escapes the quote and itself (the label ends at the first unescaped quote)
                let mut lab = String::new();
                let mut esc = false;
                let mut closed = false;
                for c in after[lp + 8..].chars() {
                    if esc {
                        lab.push(c);
                        esc = false;
                    } else if c == '\\' {
                        esc = true;
                    } else if c == '"' {
                        closed = true;
                        break;
                    } else {
                        lab.push(c);
                    }
                }
                if !closed {
                    return Facts::bad("edge label is not a closed DOT string");
                }
                f.edges.push((from, lab, to));
                continue;
            }
        }
        return Facts::bad(&format!("unparsable DOT line: {l}"));
    }
    f
}

/// Debug / Display: `ν{v} -> ⟦{attrs}⟧` entries (attrs: "\n\t{label} ➞ ν{t}" and the data), then `b{n}: {...}` lines
pub fn parse_debug(text: &str) -> Facts {
    let mut f = Facts { nodes: vec![], edges: vec![], data: vec![], ok: true, note: String::new() };
    let mut rest = text;
    while let Some(start) = rest.find('ν') {
        // entries start at line start with "ν<digits> -> ⟦"
        let at_line_start = start == 0 || rest[..start].ends_with('\n');
        let tail = &rest[start + 'ν'.len_utf8()..];
        let id: String = tail.chars().take_while(|c| c.is_ascii_digit()).collect();
        if !at_line_start || id.is_empty() || !tail[id.len()..].starts_with(" -> ⟦") {
            rest = tail;
            continue;
        }
        let v: usize = id.parse().unwrap();
        let body_start = id.len() + " -> ⟦".len();
        let Some(end) = tail[body_start..].find('⟧') else { return Facts::bad("unterminated vertex entry") };
        let body = &tail[body_start..body_start + end];
        f.nodes.push(v);
        for part in body.split(", ") {
            if part.is_empty() {
                continue;
            }
            if let Some(e) = part.strip_prefix("\n\t") {
                let Some(p) = e.find(" ➞ ν") else { return Facts::bad("bad edge in Debug") };
                let Ok(t) = e[p + " ➞ ν".len()..].parse::<usize>() else { return Facts::bad("bad target in Debug") };
                f.edges.push((v, e[..p].to_string(), t));
            } else {
                f.data.push((v, norm_data(part.to_string())));
            }
        }
        rest = &tail[body_start + end..];
    }
    f
}

/// v_print: `ν{v}⟦Δ, a, b⟧`
pub fn parse_vprint(text: &str, v: usize) -> Option<(bool, Vec<String>)> {
    let body = text.strip_prefix(&format!("ν{v}⟦"))?.strip_suffix('⟧')?;
    // the data marker is the PREFIX "Δ, " (present even when there is no label); a label that is itself Δ prints bare
    let (marker, rest) = match body.strip_prefix("Δ, ") {
        Some(r) => (true, r),
        None => (false, body),
    };
    let parts: Vec<&str> = if rest.is_empty() { vec![] } else { rest.split(", ").collect() };
    Some((marker, parts.into_iter().filter(|p| !p.is_empty()).map(|s| s.to_string()).collect()))
}

/// inspect: first line `ν{v}`, then one line per edge, indented two blanks per level: `.{label} ➞ ν{t}[…]`
pub fn parse_inspect(text: &str, v: usize) -> Option<Vec<(usize, String, usize)>> {
    let mut lines = text.lines();
    if lines.next()? != format!("ν{v}") {
        return None;
    }
    let mut stack: Vec<usize> = vec![v];
    let mut edges = vec![];
    for line in lines {
        let indent = line.chars().take_while(|c| *c == ' ').count();
        if indent < 2 || indent % 2 != 0 {
            return None;
        }
        let depth = indent / 2;
        let l = line[indent..].strip_prefix('.')?;
        let p = l.find(" ➞ ν")?;
        let label = l[..p].to_string();
        let t: String = l[p + " ➞ ν".len()..].chars().take_while(|c| c.is_ascii_digit()).collect();
        let t: usize = t.parse().ok()?;
        if depth > stack.len() {
            return None;
        }
        stack.truncate(depth);
        let from = *stack.last()?;
        edges.push((from, label, t));
        stack.push(t);
    }
    Some(edges)
}

fn witness(kind: &str, ev: Value, w: &World, path: &[HCall], o: &Opts, sum: &mut Summary, wfile: &mut Option<File>, tid: &mut usize) {
    sum.observer_failures += 1;
    *sum.by_sig.entry(format!("observer:{kind}")).or_default() += 1;
    let seen = sum.witnesses.iter().filter(|x| x["sig"] == json!(format!("observer:{kind}"))).count();
    if seen >= o.max_witness_per_sig || sum.witnesses.len() >= o.max_witnesses {
        return;
    }
    let id = *tid;
    *tid += 1;
    let mut e = ev;
    e["t"] = json!(id);
    e["h"] = json!(0);
    if let Some(f) = wfile.as_mut() {
        record_trace(f, id, o, &w.labels, path);
        writeln!(f, "{e}").unwrap();
    }
    sum.witnesses.push(json!({"t": id, "sig": format!("observer:{kind}"), "n": o.n, "cap": o.cap,
        "calls": path.iter().map(|c| c.to_json()).collect::<Vec<_>>(), "observer_event": e}));
}

fn progress(o: &Opts, what: &str, path: &[HCall]) {
    // where we are, for the parent to name the call if this process dies (stack overflow) or hangs
    let p = o.scratch.join(format!("progress-{}.json", std::process::id()));
    let _ = std::fs::write(p, json!({"observer": what, "n": o.n, "cap": o.cap, "calls": path.iter().map(|c| c.to_json()).collect::<Vec<_>>()}).to_string());
}

pub fn at_state(w: &World, s: &Abs, path: &[HCall], o: &Opts, sum: &mut Summary, wfile: &mut Option<File>, tid: &mut usize) {
    let exp = expected(s);
    let has = |k: &str| o.observers.iter().any(|x| x == k);
    let key = format!("{:?}|{:?}|{:?}", exp.nodes, { let mut e = exp.edges.clone(); e.sort(); e }, exp.data);
    let mut same_text = |kind: &str, text: &str| -> bool {
        FIRST_TEXT.with(|m| {
            let mut m = m.borrow_mut();
            match m.get(&(kind.to_string(), key.clone())) {
                Some(t) => t == text,
                None => {
                    m.insert((kind.to_string(), key.clone()), text.to_string());
                    true
                }
            }
        })
    };
    if has("xml") {
        *sum.observer_checks.entry("xml".into()).or_default() += 1;
        let (facts, text) = match w.g(0).to_xml() {
            Ok(Ok(x)) => (parse_xml(&x), x),
            Ok(Err(e)) => (Facts::bad(&format!("to_xml returned Err: {e}")), String::new()),
            Err(p) => (Facts::bad(&format!("to_xml panicked: {p}")), String::new()),
        };
        let stable = same_text("xml", &text);
        if !same_facts(&facts, &exp) || facts.nodes != exp.nodes || !stable {
            let mut e = facts.to_json();
            e["op"] = json!("xml");
            e["stable"] = json!(stable);
            witness("xml", e, w, path, o, sum, wfile, tid);
        }
    }
    if has("dot") {
        *sum.observer_checks.entry("dot".into()).or_default() += 1;
        let (facts, text) = match w.g(0).to_dot() {
            Ok(x) => (parse_dot(&x), x),
            Err(p) => (Facts::bad(&format!("to_dot panicked: {p}")), String::new()),
        };
        let stable = same_text("dot", &text);
        if !same_facts(&facts, &exp) || !stable {
            let mut e = facts.to_json();
            e["op"] = json!("dot");
            e["stable"] = json!(stable);
            witness("dot", e, w, path, o, sum, wfile, tid);
        }
    }
    if has("debug") {
        for (kind, text) in [("debug", w.g(0).debug()), ("display", w.g(0).display())] {
            *sum.observer_checks.entry(kind.into()).or_default() += 1;
            let facts = match text {
                Ok(x) => parse_debug(&x),
                Err(p) => Facts::bad(&format!("{kind} panicked: {p}")),
            };
            if !same_facts(&facts, &exp) {
                let mut e = facts.to_json();
                e["op"] = json!(kind);
                e["stable"] = json!(true);
                witness(kind, e, w, path, o, sum, wfile, tid);
            }
        }
        for v in &s.present {
            *sum.observer_checks.entry("v_print".into()).or_default() += 1;
            let r = w.g(0).v_print(*v);
            let parsed = match &r {
                Ok(Ok(t)) => parse_vprint(t, *v),
                _ => None,
            };
            let want_marker = s.val[*v].is_some();
            let mut want_labels: Vec<String> = s.edges[*v].iter().map(|(a, _)| a.clone()).collect();
            want_labels.sort();
            let good = match &parsed {
                Some((m, ls)) => {
                    let mut ls = ls.clone();
                    ls.sort();
                    *m == want_marker && ls == want_labels
                }
                None => false,
            };
            if !good {
                let e = match parsed {
                    Some((m, ls)) => json!({"op": "vprint", "v": v, "marker": m, "labels": ls, "wellformed": true}),
                    None => json!({"op": "vprint", "v": v, "marker": false, "labels": [], "wellformed": false}),
                };
                witness("v_print", e, w, path, o, sum, wfile, tid);
            }
        }
    }
}

/// inspect(v): the expected edge set comes from the specification (SodgX.Inspect)
pub fn inspect_event(w: &World, ev: &SpecEv, path: &[HCall], o: &Opts, sum: &mut Summary, wfile: &mut Option<File>, tid: &mut usize, tk: &crate::model::Tokens) {
    let v = ev.raw["v"].as_u64().unwrap() as usize;
    *sum.observer_checks.entry("inspect".into()).or_default() += 1;
    progress(o, &format!("inspect({v})"), path);
    let r = w.g(0).inspect(v);
    let parsed = match &r {
        Ok(Ok(t)) => parse_inspect(t, v),
        _ => None,
    };
    let mut want: Vec<(usize, String, usize)> = ev
        .ret
        .as_array()
        .unwrap()
        .iter()
        .map(|e| (e[0].as_u64().unwrap() as usize, tk.label(e[1].as_str().unwrap()), e[2].as_u64().unwrap() as usize))
        .collect();
    want.sort();
    let good = match &parsed {
        Some(es) => {
            let mut es = es.clone();
            es.sort();
            es == want
        }
        None => false,
    };
    if !good {
        let e = match parsed {
            Some(es) => json!({"op": "inspect", "v": v, "edges": es.iter().map(|(u, a, t)| json!([u, a, t])).collect::<Vec<_>>(), "wellformed": true}),
            None => json!({"op": "inspect", "v": v, "edges": [], "wellformed": false}),
        };
        witness("inspect", e, w, path, o, sum, wfile, tid);
    }
}


/// Emit one observer event per output (XML, DOT, Debug, Display, v_print and inspect of every present vertex) for
/// handle `h` of a world, unconditionally: the judge compares the parsed facts with the reference state.
/// The text a label token is printed as (Label.tla: a Greek label is its character, an index is the alpha sign and the
/// number, a Str is its non-blank characters): computed from the token, never by the library.  Tokens of label VALUES no
/// text denotes ("~s:a b", "~s:z", "~g:x") print like another label; the judge compares printed forms as bags.
pub fn printed_of_token(tok: &str) -> String {
    if let Some(r) = tok.strip_prefix("~g:") {
        return r.to_string();
    }
    if let Some(r) = tok.strip_prefix("~s:") {
        return r.chars().filter(|c| *c != ' ').collect();
    }
    tok.to_string()
}

pub fn observe_all(w: &World, h: usize, tid: usize, what: &[String], out: &mut dyn std::io::Write) -> usize {
    let has = |k: &str| what.is_empty() || what.iter().any(|x| x == k || x.starts_with(k) && x[k.len()..].starts_with(':'));
    let mut n = 0;
    let pr: Vec<Value> = w.labels.iter().filter(|t| printed_of_token(t) != **t).map(|t| json!([t, printed_of_token(t)])).collect();
    let mut emit = |mut e: Value, out: &mut dyn std::io::Write| {
        e["t"] = json!(tid);
        e["h"] = json!(h);
        if !pr.is_empty() {
            e["pr"] = json!(pr);
        }
        writeln!(out, "{e}").unwrap();
    };
    if has("xml") {
        let facts = match w.g(h).to_xml() {
            Ok(Ok(x)) => parse_xml(&x),
            Ok(Err(e)) => Facts::bad(&format!("to_xml returned Err: {e}")),
            Err(p) => Facts::bad(&format!("to_xml panicked: {p}")),
        };
        let mut e = facts.to_json();
        e["op"] = json!("xml");
        e["stable"] = json!(true);
        emit(e, out);
        n += 1;
    }
    if has("dot") {
        let facts = match w.g(h).to_dot() {
            Ok(x) => parse_dot(&x),
            Err(p) => Facts::bad(&format!("to_dot panicked: {p}")),
        };
        let mut e = facts.to_json();
        e["op"] = json!("dot");
        e["stable"] = json!(true);
        emit(e, out);
        n += 1;
    }
    if has("debug") {
        for (kind, text) in [("debug", w.g(h).debug()), ("display", w.g(h).display())] {
            let facts = match text {
                Ok(x) => parse_debug(&x),
                Err(p) => Facts::bad(&format!("{kind} panicked: {p}")),
            };
            let mut e = facts.to_json();
            e["op"] = json!(kind);
            e["stable"] = json!(true);
            emit(e, out);
            n += 1;
        }
        for v in w.g(h).keys().unwrap_or_default() {
            let parsed = match w.g(h).v_print(v) {
                Ok(Ok(t)) => parse_vprint(&t, v),
                _ => None,
            };
            let e = match parsed {
                Some((m, ls)) => json!({"op": "vprint", "v": v, "marker": m, "labels": ls, "wellformed": true}),
                None => json!({"op": "vprint", "v": v, "marker": false, "labels": [], "wellformed": false}),
            };
            emit(e, out);
            n += 1;
        }
    }
    if has("inspect") {
        // "inspect:<k>" in `what`: only every k-th present vertex (and the first) - the judge computes the reachable set
        let every: usize = what.iter().find_map(|x| x.strip_prefix("inspect:").and_then(|k| k.parse().ok())).unwrap_or(1);
        for (idx, v) in w.g(h).keys().unwrap_or_default().into_iter().enumerate() {
            if idx % every != 0 {
                continue;
            }
            let res = w.g(h).inspect(v);
            let panicked = res.is_err();
            let parsed = match res {
                Ok(Ok(t)) => parse_inspect(&t, v),
                _ => None,
            };
            let e = match parsed {
                Some(es) => json!({"op": "inspect", "v": v, "edges": es.iter().map(|(u, a, t)| json!([u, a, t])).collect::<Vec<_>>(), "wellformed": true, "panicked": false}),
                None => json!({"op": "inspect", "v": v, "edges": [], "wellformed": false, "panicked": panicked}),
            };
            emit(e, out);
            n += 1;
        }
    }
    n
}
