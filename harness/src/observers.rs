//! Read-only observers run at every product state (exports, debug output, inspect, ...).
//! Filled in per property; each failure becomes a witness trace judged by Trace.tla.

use crate::exec::{HCall, World};
use crate::model::Abs;
use crate::product::{Opts, SpecEv, Summary};
use std::fs::File;

pub fn at_state(
    _w: &World,
    _s: &Abs,
    _path: &[HCall],
    _o: &Opts,
    _sum: &mut Summary,
    _wfile: &mut Option<File>,
    _tid: &mut usize,
) {
}

pub fn inspect_event(
    _w: &World,
    _ev: &SpecEv,
    _path: &[HCall],
    _sum: &mut Summary,
    _wfile: &mut Option<File>,
    _tid: &mut usize,
) {
}
