//! E2: spec -> code.  Load the transition system TLC emitted for a bounded instance and
//! run a work-list to closure over pairs (spec state, full internal snapshot of a real
//! object), executing every spec transition on the real code.

use crate::exec::{Call, HCall, Ret, World};
use crate::model::{diff, latent_of, project, Abs, Diff, Tokens};
use crate::observers;
use crate::real::Pred;
use serde_json::{json, Value};
use sodg::VerifSnapshot;
use std::collections::hash_map::DefaultHasher;
use std::collections::{BTreeMap, HashMap, HashSet, VecDeque};
use std::hash::{Hash, Hasher};
use std::io::{BufRead, BufReader, Write};
use std::path::PathBuf;

/// One event of the specification's transition system.
#[derive(Clone, Debug)]
pub struct SpecEv {
    pub call: HCall,
    /// expected return value, in trace form ("none" / hex text / id / graph record ...)
    pub ret: Value,
    pub raw: Value,
}

pub struct Ts {
    pub states: Vec<Abs>,
    pub index: HashMap<String, u32>,
    pub events: Vec<SpecEv>,
    pub ev_index: HashMap<String, u32>,
    pub out: Vec<Vec<(u32, u32)>>,
    pub init: u32,
    pub transitions: usize,
}

fn decode_line(line: &str) -> Option<Value> {
    // TLC prints the ToJson string as a TLA+ string: "...." with \" and \\ escapes
    let t = line.trim();
    if !t.starts_with("\"{") {
        return None;
    }
    let inner: String = serde_json::from_str(t).ok()?;
    serde_json::from_str(&inner).ok()
}

fn call_of_spec_ev(ev: &Value, tk: &Tokens) -> Option<HCall> {
    let u = |k: &str| ev[k].as_u64().unwrap() as usize;
    let call = match ev["op"].as_str()? {
        "add" => Call::Add { v: u("v") },
        "bind" => Call::Bind { v1: u("v1"), v2: u("v2"), a: tk.label(ev["a"].as_str().unwrap()) },
        "put" => Call::Put { v: u("v"), d: tk.val(ev["d"].as_str().unwrap()) },
        "data" => Call::Data { v: u("v") },
        "next_id" => Call::NextId,
        "clone" => Call::Clone { dst: 0 },
        "reload" => Call::Reload { dst: 0 },
        "slice" => {
            let mut p = ev["p"].clone();
            if let Some(a) = p.get("a").and_then(|x| x.as_str()) {
                p["a"] = json!(tk.label(a));
            }
            Call::Slice { dst: 1, v: u("v"), p: Pred::from_json(&p) }
        }
        "inspect" => return None,
        "deploy" => {
            // the program with its tokens replaced by the concrete label / datum, and its text in a plain formatting
            // (formatting as such is ScriptGen's business; here the point is the STATE the script is deployed to)
            let mut prog = ev["prog"].clone();
            let mut texts: Vec<String> = vec![];
            let rf = |r: &Value, nu: bool| -> String {
                if r["k"] == "var" { format!("${}", r["name"].as_str().unwrap()) } else if nu { format!("ν{}", r["id"]) } else { format!("{}", r["id"]) }
            };
            for c in prog.as_array_mut()? {
                match c["c"].as_str()? {
                    "ADD" => texts.push(format!("ADD({})", rf(&c["v"], true))),
                    "BIND" => {
                        let a = tk.label(c["a"].as_str()?);
                        c["a"] = json!(a);
                        texts.push(format!("BIND({}, {}, {a})", rf(&c["v1"], false), rf(&c["v2"], true)));
                    }
                    _ => {
                        let d = tk.datum(c["d"].as_str()?);
                        c["d"] = json!(d);
                        texts.push(format!("PUT({}, {d})", rf(&c["v"], false)));
                    }
                }
            }
            Call::Deploy { text: texts.join(";\n") + ";", prog, fault_at: 0 }
        }
        _ => return None,
    };
    Some(HCall { h: 0, call })
}

pub fn load_ts(paths: &[PathBuf], tk: &Tokens) -> Ts {
    let mut ts = Ts {
        states: vec![],
        index: HashMap::new(),
        events: vec![],
        ev_index: HashMap::new(),
        out: vec![],
        init: 0,
        transitions: 0,
    };
    let mut seen_tr: HashSet<(u32, u32, u32)> = HashSet::new();
    let mut intern = |ts: &mut Ts, v: &Value| -> u32 {
        let key = v.to_string();
        if let Some(i) = ts.index.get(&key) {
            return *i;
        }
        let i = ts.states.len() as u32;
        ts.states.push(Abs::from_spec(v, tk));
        ts.out.push(vec![]);
        ts.index.insert(key, i);
        i
    };
    for p in paths {
        let f = std::fs::File::open(p).unwrap_or_else(|e| panic!("cannot open {}: {e}", p.display()));
        for line in BufReader::new(f).lines() {
            let line = line.unwrap();
            let Some(v) = decode_line(&line) else { continue };
            let pre = intern(&mut ts, &v["pre"]);
            let post = intern(&mut ts, &v["post"]);
            let ek = v["ev"].to_string();
            let e = if let Some(i) = ts.ev_index.get(&ek) {
                *i
            } else {
                let i = ts.events.len() as u32;
                let call = match call_of_spec_ev(&v["ev"], tk) {
                    Some(c) => c,
                    None => {
                        // observer events that are not calls of the world (inspect, export): keep raw
                        HCall { h: 0, call: Call::NextId }
                    }
                };
                ts.events.push(SpecEv { call, ret: v["ev"].get("ret").cloned().unwrap_or(Value::Null), raw: v["ev"].clone() });
                ts.ev_index.insert(ek, i);
                i
            };
            if seen_tr.insert((pre, e, post)) {
                ts.out[pre as usize].push((e, post));
                ts.transitions += 1;
            }
        }
    }
    // the initial state: empty graph
    let mut init = None;
    for (i, s) in ts.states.iter().enumerate() {
        if s.present.is_empty() && s.nextv == 0 {
            init = Some(i as u32);
            break;
        }
    }
    ts.init = init.expect("no initial (empty) state in the transition system");
    ts
}

fn h128(s: &VerifSnapshot) -> (u64, u64) {
    let mut a = DefaultHasher::new();
    s.hash(&mut a);
    let mut b = DefaultHasher::new();
    0xA5A5_5A5Au32.hash(&mut b);
    s.hash(&mut b);
    (a.finish(), b.finish())
}

struct Node {
    parent: u32,
    ev: u32,
    state: u32,
}

pub struct Opts {
    pub n: usize,
    pub cap: usize,
    pub budget: usize,
    pub scratch: PathBuf,
    pub observers: Vec<String>,
    pub witness_out: Option<PathBuf>,
    pub max_witness_per_sig: usize,
    pub max_witnesses: usize,
    pub tokens_json: Value,
}

#[derive(Default)]
pub struct Summary {
    pub executions: usize,
    pub product_states: usize,
    pub closed: bool,
    pub mismatching: usize,
    pub latent_only: usize,
    pub by_sig: BTreeMap<String, usize>,
    pub observer_checks: BTreeMap<String, usize>,
    pub observer_failures: usize,
    pub impl_inv_violations: usize,
    pub clone_fallback: bool,
    pub max_depth: usize,
    pub max_occupied_slots: usize,
    pub collections: usize,
    pub witnesses: Vec<Value>,
    pub samples: Vec<Value>,
    pub ops: BTreeMap<String, usize>,
}

fn path_of(nodes: &[Node], ts: &Ts, mut i: u32) -> Vec<HCall> {
    let mut p = vec![];
    while i != 0 {
        let n = &nodes[i as usize];
        p.push(ts.events[n.ev as usize].call.clone());
        i = n.parent;
    }
    p.reverse();
    p
}

fn ret_matches(ev: &SpecEv, ret: &Ret, tk: &Tokens) -> bool {
    match (&ev.call.call, ret) {
        (_, Ret::Panic(_)) => false,
        (Call::Data { .. }, Ret::Data(d)) => {
            let want = ev.ret.as_str().unwrap();
            match d {
                None => want == "none",
                Some(s) => want != "none" && *s == tk.datum(want),
            }
        }
        (Call::NextId, Ret::Id(i)) => ev.ret.as_u64() == Some(*i as u64),
        (Call::Deploy { .. }, Ret::Count(n)) => ev.ret.as_u64() == Some(*n as u64),
        (Call::Clone { .. }, Ret::Ok) | (Call::Reload { .. }, Ret::Ok) | (Call::Slice { .. }, Ret::Ok) => true,
        (Call::Add { .. }, Ret::Unit) | (Call::Bind { .. }, Ret::Unit) | (Call::Put { .. }, Ret::Unit) => true,
        _ => false,
    }
}

pub fn run(ts: &Ts, tk: &Tokens, o: &Opts) -> Summary {
    let mut sum = Summary::default();
    let labels: Vec<String> = tk.labels.values().cloned().collect();
    let mut nodes: Vec<Node> = vec![Node { parent: 0, ev: 0, state: ts.init }];
    let mut seen: HashSet<(u32, (u64, u64))> = HashSet::new();
    let mut queue: VecDeque<u32> = VecDeque::new();
    let mut sig_count: HashMap<String, usize> = HashMap::new();
    let mut wfile = o.witness_out.as_ref().map(|p| std::fs::File::create(p).unwrap());
    let mut next_trace_id = 1usize;
    let mut depth: Vec<u32> = vec![0];

    let build = |path: &[HCall]| -> World {
        let mut w = World::new(o.n, o.cap, o.scratch.clone());
        w.labels = labels.clone();
        for c in path {
            let _ = w.exec(c);
        }
        w
    };
    {
        let w = build(&[]);
        let (abs, snap) = project(w.g(0), &labels).expect("projection of the empty graph failed");
        let d = diff(&ts.states[ts.init as usize], &abs);
        assert!(d.none(), "empty graph differs from Init: {d:?}");
        seen.insert((ts.init, h128(&snap)));
        queue.push_back(0);
    }
    let mut clone_ok = true;
    let indep = o.observers.iter().any(|x| x == "indep");
    'outer: while let Some(ni) = queue.pop_front() {
        let s = nodes[ni as usize].state;
        let path = path_of(&nodes, ts, ni);
        let base = build(&path);
        let base_snap = base.g(0).snap();
        // observers at this product state
        if o.observers.iter().any(|x| x != "indep") {
            observers::at_state(&base, &ts.states[s as usize], &path, o, &mut sum, &mut wfile, &mut next_trace_id);
        }
        for (ei, post) in &ts.out[s as usize] {
            if sum.executions >= o.budget {
                break 'outer;
            }
            let ev = &ts.events[*ei as usize];
            if ev.raw["op"] == "inspect" {
                observers::inspect_event(&base, ev, &path, o, &mut sum, &mut wfile, &mut next_trace_id, tk);
                continue;
            }
            // a private copy of the object: the real clone(), cross-checked; path replay otherwise
            let mut w = if clone_ok {
                match base.g(0).dup() {
                    Ok(c) if c.snap() == base_snap => {
                        let mut w = World::new(o.n, 1, o.scratch.clone());
                        w.n = o.n;
                        w.cap = o.cap;
                        w.labels = labels.clone();
                        w.gs[0] = Some(c);
                        w
                    }
                    _ => {
                        clone_ok = false;
                        sum.clone_fallback = true;
                        build(&path)
                    }
                }
            } else {
                build(&path)
            };
            sum.executions += 1;
            *sum.ops.entry(ev.raw["op"].as_str().unwrap_or("?").to_string()).or_default() += 1;
            let ret = w.exec(&ev.call);
            let expected = &ts.states[*post as usize];
            if clone_ok && indep && base.g(0).snap() != base_snap {
                // mutating the clone changed the original
                *sum.observer_checks.entry("independence-broken".into()).or_default() += 1;
                sum.observer_failures += 1;
                if sum.witnesses.len() < o.max_witnesses {
                    let mut calls = path.clone();
                    calls.push(HCall { h: 0, call: Call::Clone { dst: 1 } });
                    let mut c = ev.call.clone();
                    c.h = 1;
                    if !matches!(c.call, Call::Clone { .. } | Call::Reload { .. } | Call::Slice { .. }) {
                        calls.push(c);
                        let tid = next_trace_id;
                        next_trace_id += 1;
                        if let Some(f) = wfile.as_mut() {
                            record_trace(f, tid, o, &labels, &calls);
                        }
                        sum.witnesses.push(json!({"t": tid, "sig": "independence", "n": o.n, "cap": o.cap,
                            "calls": calls.iter().map(|c| c.to_json()).collect::<Vec<_>>()}));
                    }
                }
                break 'outer;
            }
            if indep {
                *sum.observer_checks.entry("independence".into()).or_default() += 1;
            }
            let (d, snap_after): (Diff, Option<VerifSnapshot>) = if ret.is_panic() {
                let mut d = Diff::default();
                d.observable.insert("panic");
                (d, None)
            } else {
                match &ev.call.call {
                    Call::Slice { .. } => {
                        // result graph in handle 1, expected in ev.ret; source must be unchanged
                        let mut d = Diff::default();
                        if !matches!(ret, Ret::Ok) {
                            d.observable.insert("ret");
                        } else {
                            let want = Abs::from_spec(&ev.ret, tk);
                            match project(w.g(1), &labels) {
                                Ok((got, _)) => {
                                    let dd = diff(&want, &got);
                                    if !dd.observable.is_empty() {
                                        d.observable.insert("slice");
                                    }
                                    if !dd.latent.is_empty() {
                                        d.latent.insert("slice-latent");
                                    }
                                }
                                Err(_) => {
                                    d.observable.insert("broken");
                                }
                            }
                            if w.g(0).snap() != base_snap {
                                d.observable.insert("source-changed");
                            }
                        }
                        (d, Some(w.g(0).snap()))
                    }
                    _ => match project(w.g(0), &labels) {
                        Ok((got, snap)) => {
                            let mut d = diff(expected, &got);
                            if !ret_matches(ev, &ret, tk) {
                                d.observable.insert("ret");
                            }
                            let lat = latent_of(&snap);
                            if !lat.counter_is_recount || !lat.tags_match_lists {
                                sum.impl_inv_violations += 1;
                            }
                            sum.max_occupied_slots = sum.max_occupied_slots.max(lat.occupied_slots);
                            (d, Some(snap))
                        }
                        Err(_) => {
                            let mut d = Diff::default();
                            d.observable.insert("broken");
                            (d, None)
                        }
                    },
                }
            };
            if expected.present.len() < ts.states[s as usize].present.len() {
                sum.collections += 1;
            }
            if !d.none() {
                sum.mismatching += 1;
                if d.observable.is_empty() {
                    sum.latent_only += 1;
                }
                let sig = format!(
                    "{}:{}|{}",
                    ev.raw["op"].as_str().unwrap_or("?"),
                    d.observable.iter().cloned().collect::<Vec<_>>().join("+"),
                    d.latent.iter().cloned().collect::<Vec<_>>().join("+")
                );
                *sum.by_sig.entry(sig.clone()).or_default() += 1;
                let c = sig_count.entry(sig.clone()).or_default();
                if *c < o.max_witness_per_sig && sum.witnesses.len() < o.max_witnesses {
                    *c += 1;
                    let mut calls = path.clone();
                    calls.push(ev.call.clone());
                    let (calls, mirror) = mirrorize(&calls);
                    let tid = next_trace_id;
                    next_trace_id += 1;
                    let w = json!({"t": tid, "sig": sig, "n": o.n, "cap": o.cap,
                        "calls": calls.iter().zip(mirror.iter()).map(|(c, m)| { let mut j = c.to_json(); if *m { j["mirror"] = json!(true); } j }).collect::<Vec<_>>(),
                        "expected_post": expected.to_trace_json(), "expected_ret": ev.ret});
                    if let Some(f) = wfile.as_mut() {
                        record_trace_m(f, tid, o, &labels, &calls, &mirror);
                    }
                    sum.witnesses.push(w);
                }
            }
            if d.observable.is_empty() {
                if let Some(snap) = snap_after {
                    if matches!(ev.call.call, Call::Slice { .. }) {
                        continue;
                    }
                    if seen.insert((*post, h128(&snap))) {
                        nodes.push(Node { parent: ni, ev: *ei, state: *post });
                        depth.push(depth[ni as usize] + 1);
                        sum.max_depth = sum.max_depth.max(depth[ni as usize] as usize + 1);
                        queue.push_back((nodes.len() - 1) as u32);
                    }
                }
            }
        }
    }
    sum.closed = queue.is_empty() && sum.executions < o.budget;
    sum.product_states = seen.len();
    // a few sample transitions as executed
    for ni in [1usize, nodes.len() / 2, nodes.len().saturating_sub(1)] {
        if ni > 0 && ni < nodes.len() {
            let p = path_of(&nodes, ts, ni as u32);
            sum.samples.push(json!({"calls": p.iter().map(|c| c.to_json()).collect::<Vec<_>>(),
                "reaches": ts.states[nodes[ni].state as usize].to_trace_json()}));
        }
    }
    sum
}

/// Re-execute a call path on a fresh world with the recorder on: one trace, one event per call.
pub fn record_trace(f: &mut impl Write, tid: usize, o: &Opts, labels: &[String], calls: &[HCall]) {
    record_trace_m(f, tid, o, labels, calls, &[]);
}

pub fn record_trace_m(f: &mut impl Write, tid: usize, o: &Opts, labels: &[String], calls: &[HCall], mirror: &[bool]) {
    let mut w = World::new(o.n, o.cap, o.scratch.clone());
    w.labels = labels.to_vec();
    let mut rec = crate::drive::Recorder { out: f, tid, events: 0, mirror_next: false, progress: None, last_id: None, observe_every: 0, own: std::collections::BTreeMap::new() };
    rec.reset(&w);
    for (i, c) in calls.iter().enumerate() {
        if mirror.get(i).copied().unwrap_or(false) {
            rec.mirror_next = true;
        }
        if !rec.call(&mut w, c.clone()) {
            break;
        }
    }
}

pub fn summary_json(ts: &Ts, o: &Opts, s: &Summary) -> Value {
    json!({
        "n": o.n, "cap": o.cap, "tokens": o.tokens_json,
        "spec_states": ts.states.len(), "spec_transitions": ts.transitions,
        "executions": s.executions, "product_states": s.product_states, "closed": s.closed,
        "mismatching_transitions": s.mismatching, "latent_only": s.latent_only, "by_signature": s.by_sig,
        "observer_checks": s.observer_checks, "observer_failures": s.observer_failures,
        "impl_invariant_violations": s.impl_inv_violations, "clone_fallback": s.clone_fallback,
        "max_depth": s.max_depth, "max_occupied_slots": s.max_occupied_slots,
        "collecting_transitions_executed": s.collections, "ops": s.ops,
        "witnesses": s.witnesses, "samples": s.samples,
    })
}

/// A witness path that contains an in-place clone / save+load (handle 0 replaced by its copy) is judged
/// side by side: up to the LAST such call everything runs on handle 0; the copy goes to handle 1; every
/// later call runs on the original (0) and then, flagged `mirror`, on the copy (1).  A flaw of the copy
/// shows as a difference between the two; a flaw elsewhere shows identically on both.
pub fn mirrorize(calls: &[HCall]) -> (Vec<HCall>, Vec<bool>) {
    let last = calls.iter().rposition(|c| matches!(c.call, Call::Clone { dst: 0 } | Call::Reload { dst: 0 }));
    let Some(k) = last else { return (calls.to_vec(), vec![false; calls.len()]) };
    let mut out = vec![];
    let mut mir = vec![];
    for c in &calls[..k] {
        out.push(c.clone());
        mir.push(false);
    }
    let is_reload = matches!(calls[k].call, Call::Reload { .. });
    out.push(HCall { h: 0, call: if is_reload { Call::Reload { dst: 1 } } else { Call::Clone { dst: 1 } } });
    mir.push(false);
    for c in &calls[k + 1..] {
        out.push(c.clone());
        mir.push(false);
        let mut c1 = c.clone();
        c1.h = 1;
        if let Call::Slice { dst, .. } = &mut c1.call {
            *dst = 2;
        }
        out.push(c1);
        mir.push(!(is_reload && matches!(c.call, Call::NextId)));
    }
    (out, mir)
}
