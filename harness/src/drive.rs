//! E3: code -> spec.  Drivers that run long, biased call sequences on the real library and
//! record one trace event per call.  A driver never decides anything: it only steers (using
//! what the object shows) towards the situations the tests never reach; whether a call was
//! inside the limits, and whether the observed behaviour is right, is decided by Trace.tla.

use crate::exec::{Call, HCall, World};
use crate::real::{hex_text, Pred};
use rand::rngs::StdRng;
use rand::seq::SliceRandom;
use rand::{Rng, SeedableRng};
use serde_json::{json, Value};
use std::collections::BTreeMap;
use std::io::Write;
use std::path::PathBuf;

pub struct DriveOpts {
    pub n: usize,
    pub cap: usize,
    pub steps: usize,
    pub seed: u64,
    pub profile: String,
    pub window: usize,
    pub scratch: PathBuf,
    pub shapes: Vec<Vec<Value>>,
    pub reps: Option<usize>,
    /// run every read-only observer (XML, DOT, Debug, Display, v_print, inspect) after every so many calls (0: never)
    pub observe: usize,
    /// k > 0: put the label VALUES no text denotes (odd_labels, starting at the k-th) among the labels of any profile;
    /// k = 1 puts "ab" and the Str "a b" (which print alike) side by side
    pub odd: usize,
    pub progress: Option<PathBuf>,
}

/// label pool: all three variants, multi-byte characters included
pub fn label_pool(n: usize) -> Vec<String> {
    let all = [
        "α0", "α1", "ρ", "x", "foo", "𝜑", "α12", "hello", "σ", "a-b", "€", "π", "abcdefgh", "α7", "Δ", "∆",
        "Foo", "ϕ", "φ", "µ", "μ", "ξ1", "q", "zz", "α3",
    ];
    // from "Δ" on: CONFUSABLE labels - distinct values that a well-meant canonicalisation would identify (the increment
    // sign U+2206 next to the Greek capital delta, phi and its symbol variant, the micro sign next to mu, letter case)
    all.iter().take((n + 4).min(all.len())).map(|s| s.to_string()).collect()
}

/// label VALUES that no text denotes, or that sit at the edge of the text form: a blank inside, a Str of one
/// character, Greek('α'), an index of eight digits (save/load and clone must keep them apart all the same)
pub fn odd_labels() -> Vec<String> {
    // ... and Str values ending in white space that is not the padding blank (TAB, no-break space) next to the trimmed twin
    ["~s:a b", "~s:z", "~g:α", "α12345678", "ab", "~s:αb", "ab\t", "ab\u{a0}", "~s:ab \t", "a\"b", "a\\b"].iter().map(|s| s.to_string()).collect()
}

/// data values on both sides of the 8-byte inline boundary
pub fn data_pool() -> Vec<String> {
    let lens = [0usize, 1, 3, 7, 8, 9, 12, 20];
    let mut v = vec![];
    for (k, l) in lens.iter().enumerate() {
        let bytes: Vec<u8> = (0..*l).map(|i| (i as u8).wrapping_mul(17).wrapping_add(k as u8 * 3 + 1)).collect();
        v.push(hex_text(&bytes));
    }
    // CONFUSABLE data: distinct byte strings that are equal under a coarser reading (+0.0 / -0.0 and two NaNs as f64, a
    // leading or trailing zero byte as a number / C string), a heap value and its twin differing in the last byte only
    for d in ["00-00-00-00-00-00-00-00", "80-00-00-00-00-00-00-00", "7F-F8-00-00-00-00-00-00", "7F-F8-00-00-00-00-00-01", "07-18-29-00", "00-07-18-29"] {
        v.push(d.to_string());
    }
    let heap: Vec<u8> = (0..20u8).map(|i| i.wrapping_mul(17).wrapping_add(22)).collect();
    let mut twin = heap.clone();
    twin[19] ^= 1;
    v.push(hex_text(&twin));
    // the same bytes asked for as Hex::Vector whatever the length (both variants are public): empty, short, eight bytes
    for d in ["--~v", "07-18-29~v", "00-00-00-00-00-00-00-00~v"] {
        v.push(d.to_string());
    }
    v
}

struct View {
    present: Vec<usize>,
    tag: BTreeMap<usize, usize>,
    group_size: BTreeMap<usize, usize>,
    unread: Vec<usize>,
    nlabels: BTreeMap<usize, Vec<String>>,
}

fn view(w: &World, h: usize) -> View {
    let s = w.g(h).snap();
    let present = w.g(h).keys().unwrap_or_default();
    let mut tag = BTreeMap::new();
    let mut group_size: BTreeMap<usize, usize> = BTreeMap::new();
    let mut unread = vec![];
    let mut nlabels = BTreeMap::new();
    for v in &present {
        if let Some(Some(sl)) = s.slots.get(*v) {
            tag.insert(*v, sl.tag);
            if sl.tag >= 2 {
                *group_size.entry(sl.tag).or_default() += 1;
            }
            if sl.persistence == 1 {
                unread.push(*v);
            }
            nlabels.insert(*v, sl.edges.iter().map(|(a, _)| crate::real::label_text(a)).collect());
        }
    }
    View { present, tag, group_size, unread, nlabels }
}

pub struct Recorder<'a> {
    pub out: &'a mut dyn Write,
    pub tid: usize,
    pub events: usize,
    pub mirror_next: bool,
    pub progress: Option<std::path::PathBuf>,
    pub last_id: Option<usize>,
    pub observe_every: usize,
    /// the driver's OWN record of the labels it bound on each vertex since it created it (steering must not rely on
    /// what the object claims a vertex holds: stale contents of a recycled slot would steer the driver around the bug)
    pub own: BTreeMap<(usize, usize), Vec<String>>,
}

impl<'a> Recorder<'a> {
    pub fn reset(&mut self, w: &World) {
        self.own.clear();
        writeln!(self.out, "{}", json!({"op":"reset","t":self.tid,"h":0,"n":w.n,"cap":w.cap})).unwrap();
    }
    /// execute and record; returns false when the object panicked (trace ends)
    pub fn call(&mut self, w: &mut World, c: HCall) -> bool {
        if let Some(p) = &self.progress {
            let _ = std::fs::write(p, json!({"t": self.tid, "events_done": self.events, "pending": c.to_json()}).to_string());
        }
        let before = w.gs.get(c.h).and_then(|x| x.as_ref()).map(|g| g.snap());
        // a script is judged against the same API calls applied to a copy of the graph it is deployed to
        let mut direct: Option<Value> = None;
        if let Call::Deploy { prog, fault_at, .. } = &c.call {
            if let Ok(mut twin) = w.g(c.h).dup() {
                let n = prog.as_array().map(|a| a.len()).unwrap_or(0);
                let upto = if *fault_at == 0 { n } else { fault_at - 1 };
                direct = Some(match crate::exec::apply_program(twin.as_mut(), prog, upto) {
                    Ok(()) => match crate::model::project(twin.as_ref(), &w.labels) {
                        Ok((a, _)) => a.to_trace_json(),
                        Err(s) => json!({"broken": s}),
                    },
                    Err(p) => json!({"broken": format!("the direct calls panicked: {p}"), "panicked": true}),
                });
            }
        }
        let was_present = match &c.call {
            Call::Add { v } => w.gs.get(c.h).and_then(|x| x.as_ref()).and_then(|g| g.keys().ok()).map(|k| k.contains(v)).unwrap_or(false),
            _ => false,
        };
        let ret = w.exec(&c);
        if let crate::exec::Ret::Id(i) = &ret {
            self.last_id = Some(*i);
        }
        if !ret.is_panic() {
            match &c.call {
                Call::Add { v } if !was_present => {
                    self.own.insert((c.h, *v), vec![]);
                }
                Call::Bind { v1, a, .. } => {
                    // only for vertices whose creation this record has seen (otherwise it would be incomplete)
                    if let Some(e) = self.own.get_mut(&(c.h, *v1)) {
                        if !e.contains(a) {
                            e.push(a.clone());
                        }
                    }
                }
                Call::New { .. } | Call::Clone { .. } | Call::Reload { .. } | Call::Load { .. } | Call::Slice { .. } | Call::Merge { .. } | Call::Deploy { .. } => {
                    // bookkeeping for copies and composite calls is not kept: forget the handles they write
                    let hs: Vec<usize> = match &c.call {
                        Call::Clone { dst } | Call::Reload { dst } | Call::Load { dst } | Call::Slice { dst, .. } => vec![*dst],
                        _ => vec![c.h],
                    };
                    self.own.retain(|(h, _), _| !hs.contains(h));
                }
                _ => {}
            }
        }
        let after = w.gs.get(c.h).and_then(|x| x.as_ref()).map(|g| g.snap());
        let mut e = w.event(self.tid, &c, &ret, before == after);
        if let Some(d) = direct {
            e["direct"] = d;
        }
        if self.mirror_next {
            e["mirror"] = json!(true);
            self.mirror_next = false;
        }
        // observe every other live handle as well (independence)
        let mut obs = e["obs"].as_array().cloned().unwrap_or_default();
        for h in 0..w.gs.len() {
            if w.gs[h].is_some() && !obs.iter().any(|o| o["h"] == json!(h)) {
                match w.project(h) {
                    Ok(a) => {
                        let mut o = a.to_trace_json();
                        o["h"] = json!(h);
                        obs.push(o);
                    }
                    Err(s) => obs.push(json!({"h": h, "broken": s})),
                }
            }
        }
        e["obs"] = json!(obs);
        if let Some(t) = e.get("msg").and_then(|t| t.as_str()) {
            if let Some(pos) = t.find("missed:") {
                let ids: Vec<usize> = t[pos..]
                    .split('ν')
                    .skip(1)
                    .filter_map(|p| p.chars().take_while(|c| c.is_ascii_digit()).collect::<String>().parse().ok())
                    .collect();
                e["missed"] = json!(ids);
            }
        }
        writeln!(self.out, "{e}").unwrap();
        if self.progress.is_some() {
            let _ = self.out.flush();
        }
        self.events += 1;
        if self.observe_every > 0 && self.events % self.observe_every == 0 && !ret.is_panic() {
            for h in 0..w.gs.len() {
                if w.gs[h].is_some() {
                    self.events += crate::observers::observe_all(w, h, self.tid, &[], self.out);
                }
            }
        }
        !ret.is_panic()
    }
}

pub fn run(o: &DriveOpts, out: &mut dyn Write, tid: usize) -> Value {
    let mut rng = StdRng::seed_from_u64(o.seed);
    let mut w = World::new(o.n, o.cap, o.scratch.clone());
    let mut labels = label_pool(o.n);
    if matches!(o.profile.as_str(), "twin" | "world") || o.odd > 0 {
        let odd = odd_labels();
        let k = if o.odd > 0 { (o.odd - 1) % odd.len() } else { (o.seed as usize) % odd.len() };
        labels.insert(1, odd[k].clone());
        labels.insert(2, odd[(k + 1) % odd.len()].clone());
        labels.insert(0, odd[(k + 4) % odd.len()].clone());
    }
    w.labels = labels.clone();
    let datas = data_pool();
    let mut rec = Recorder { out, tid, events: 0, mirror_next: false, progress: o.progress.clone(), last_id: None, observe_every: if o.observe > 0 { o.observe } else if o.profile == "observe" { 25 } else { 0 }, own: BTreeMap::new() };
    rec.reset(&w);
    let win = o.window.min(o.cap);
    // profile "high": the ids in play are the LAST `window` ids below the capacity
    let idbase = if o.profile == "high" { o.cap - win } else { 0 };
    let mut ok = true;
    let profile = o.profile.as_str();

    // structured prefixes -------------------------------------------------------------
    if profile == "groups14" || profile == "pump" {
        // k background groups (pairs) kept alive with one unread datum each
        let k = match profile {
            "groups14" => 14,
            _ => [0usize, 1, 7, 13][(o.seed % 4) as usize],
        };
        let base = o.cap - 2 * k;
        for i in 0..k {
            let a = base + 2 * i;
            let b = a + 1;
            ok = ok
                && rec.call(&mut w, HCall { h: 0, call: Call::Add { v: a } })
                && rec.call(&mut w, HCall { h: 0, call: Call::Add { v: b } })
                && rec.call(&mut w, HCall { h: 0, call: Call::Bind { v1: a, v2: b, a: labels[0].clone() } })
                && rec.call(&mut w, HCall { h: 0, call: Call::Put { v: b, d: datas[i % datas.len()].clone() } });
        }
    }
    if o.odd > 0 && win >= 2 {
        // labels that PRINT alike (a Str with a blank inside next to the Str without it ...) on ONE vertex to the SAME
        // target: two edges, two entries in every export - and the observers are run right there
        let (a, b) = (idbase + win - 1, idbase + win - 2);
        let mut pair: Option<(String, String)> = None;
        for l1 in &labels {
            for l2 in &labels {
                if l1 < l2 && crate::observers::printed_of_token(l1) == crate::observers::printed_of_token(l2) {
                    pair = Some((l1.clone(), l2.clone()));
                }
            }
        }
        if let Some((l1, l2)) = pair {
            if o.n >= 2 {
                ok = ok
                    && rec.call(&mut w, HCall { h: 0, call: Call::Add { v: a } })
                    && rec.call(&mut w, HCall { h: 0, call: Call::Add { v: b } })
                    && rec.call(&mut w, HCall { h: 0, call: Call::Bind { v1: a, v2: b, a: l1 } })
                    && rec.call(&mut w, HCall { h: 0, call: Call::Bind { v1: a, v2: b, a: l2 } });
                if ok {
                    rec.events += crate::observers::observe_all(&w, 0, rec.tid, &[], rec.out);
                }
            }
        }
    }
    if profile == "fan" {
        // a hub with as many labels as N allows (up to 16): 15 children in its group (16 members), the remaining label to
        // a child again; then data on some children, so that the random part collects, re-adds and re-binds around it
        let hub = 0usize;
        ok = ok && rec.call(&mut w, HCall { h: 0, call: Call::Add { v: hub } });
        let kids = 15usize.min(o.cap - 1).min(o.n);
        for i in 1..=kids {
            ok = ok
                && rec.call(&mut w, HCall { h: 0, call: Call::Add { v: i } })
                && rec.call(&mut w, HCall { h: 0, call: Call::Bind { v1: hub, v2: i, a: labels[(i - 1) % labels.len()].clone() } });
        }
        if o.n > kids && labels.len() > kids {
            ok = ok && rec.call(&mut w, HCall { h: 0, call: Call::Bind { v1: hub, v2: 1, a: labels[kids].clone() } });
        }
        for i in (1..=kids).step_by(3) {
            ok = ok && rec.call(&mut w, HCall { h: 0, call: Call::Put { v: i, d: datas[i % datas.len()].clone() } });
        }
    }
    if profile == "pairs" {
        // the graph completely packed with two-vertex groups (capacity / 2 of them, at most 14), each then read and collected
        let k = (o.cap / 2).min(14);
        for i in 0..k {
            ok = ok
                && rec.call(&mut w, HCall { h: 0, call: Call::Add { v: 2 * i } })
                && rec.call(&mut w, HCall { h: 0, call: Call::Add { v: 2 * i + 1 } })
                && rec.call(&mut w, HCall { h: 0, call: Call::Bind { v1: 2 * i, v2: 2 * i + 1, a: labels[i % labels.len().min(o.n.max(1))].clone() } });
        }
        for i in 0..k {
            ok = ok
                && rec.call(&mut w, HCall { h: 0, call: Call::Put { v: 2 * i + 1, d: datas[i % datas.len()].clone() } })
                && rec.call(&mut w, HCall { h: 0, call: Call::Data { v: 2 * i + 1 } });
        }
    }
    if profile == "crowd" {
        // more vertices present at once than 16 groups of 16 could hold (ungrouped vertices are bounded by the capacity only)
        for v in 0..o.cap.saturating_sub(3) {
            ok = ok && rec.call(&mut w, HCall { h: 0, call: Call::Add { v } });
        }
        for i in 0..6usize.min(o.cap / 4) {
            let (a, b) = (o.cap - 4 - 2 * i, o.cap - 5 - 2 * i);
            ok = ok && rec.call(&mut w, HCall { h: 0, call: Call::Bind { v1: a, v2: b, a: labels[i % labels.len().min(o.n.max(1))].clone() } });
            ok = ok && rec.call(&mut w, HCall { h: 0, call: Call::Put { v: if i % 2 == 0 { a } else { b }, d: datas[(i + 4) % datas.len()].clone() } });
        }
    }
    if profile == "big16" {
        // grow one group to 16 members, by both join directions
        ok = ok && rec.call(&mut w, HCall { h: 0, call: Call::Add { v: 0 } });
        for i in 1..16 {
            ok = ok && rec.call(&mut w, HCall { h: 0, call: Call::Add { v: i } });
            let (v1, v2) = if i % 2 == 0 { (i, i - 1) } else { (0, i) };
            let lab = if v1 == 0 { labels[(i / 2) % labels.len().min(o.n)].clone() } else { labels[0].clone() };
            ok = ok && rec.call(&mut w, HCall { h: 0, call: Call::Bind { v1, v2, a: lab } });
            if i % 5 == 0 {
                ok = ok && rec.call(&mut w, HCall { h: 0, call: Call::Put { v: i, d: datas[i % datas.len()].clone() } });
            }
        }
    }
    if profile == "pump" && !o.shapes.is_empty() {
        // pumped GC cycles: every shape repeated on a rotating window of ids
        let k = [0usize, 1, 7, 13][(o.seed % 4) as usize];
        let reps = o.reps.unwrap_or(17 - k);
        let mut off = 0usize;
        let span = win.min(o.cap - 2 * k).max(3);
        'shapes: for (si, shape) in o.shapes.iter().enumerate() {
            for r in 0..reps {
                for c in shape {
                    let mut c = c.clone();
                    for k in ["v", "v1", "v2"] {
                        if let Some(x) = c.get(k).and_then(|x| x.as_u64()) {
                            c[k] = json!((off + x as usize) % span);
                        }
                    }
                    if let Some(a) = c.get("a").and_then(|x| x.as_str()) {
                        // the label rotates from life to life (every life of a vertex uses at most N labels, but a re-used id
                        // sees more than N different ones over its lives)
                        let idx = (a.bytes().next().unwrap_or(b'a') - b'a') as usize;
                        c["a"] = json!(labels[(idx + r + r / 4 + r / 7) % labels.len()]);
                    }
                    if c.get("d").is_some() {
                        c["d"] = json!(datas[(si + r) % datas.len()]);
                    }
                    c["h"] = json!(0);
                    if !rec.call(&mut w, HCall::from_json(&c)) {
                        ok = false;
                        break 'shapes;
                    }
                }
                off = (off + 3) % span;
            }
        }
    }

    if profile == "deepchain" {
        // ONE path of 140 or 224 (capacity permitting) vertices through ten or fourteen groups (chains built apart, then
        // linked: binding two grouped vertices changes no group), data here and there; the observers at the end (inspect from
        // the head walks 139 edges deep), then the groups read out from the tail
        let nl = o.n.max(1).min(labels.len());
        // (seed odd: 224 vertices = 14 groups of 16, every vertex that can carry an edge at all; seed even: 140 in segments of 15)
        let (total, seg) = if o.seed % 2 == 1 { (224usize.min(o.cap), 16usize) } else { (140usize.min(o.cap), 15usize) };
        for v in 0..total {
            ok = ok && rec.call(&mut w, HCall { h: 0, call: Call::Add { v } });
        }
        for v in 0..total.saturating_sub(1) {
            if (v + 1) % seg != 0 {
                ok = ok && rec.call(&mut w, HCall { h: 0, call: Call::Bind { v1: v, v2: v + 1, a: labels[v % nl].clone() } });
            }
        }
        for v in 0..total.saturating_sub(1) {
            if (v + 1) % seg == 0 {
                // the last vertex of a segment and the first of the next are both grouped already (segments of two or more)
                ok = ok && rec.call(&mut w, HCall { h: 0, call: Call::Bind { v1: v, v2: v + 1, a: labels[v % nl].clone() } });
            }
        }
        for v in (0..total).step_by(7) {
            ok = ok && rec.call(&mut w, HCall { h: 0, call: Call::Put { v, d: datas[v % datas.len()].clone() } });
        }
        if ok {
            // all printers once; inspect from the head and from every 35th vertex (the judge computes each reachable set)
            let what: Vec<String> = ["xml", "dot", "debug", "display", "inspect:35"].iter().map(|x| x.to_string()).collect();
            rec.events += crate::observers::observe_all(&w, 0, rec.tid, &what, rec.out);
        }
        for v in (0..total).step_by(7).collect::<Vec<_>>().into_iter().rev() {
            if ok && w.g(0).keys().unwrap_or_default().contains(&v) {
                ok = rec.call(&mut w, HCall { h: 0, call: Call::Data { v } });
            }
        }
        return json!({"t": tid, "profile": o.profile, "n": o.n, "cap": o.cap, "seed": o.seed, "events": rec.events, "panicked": !ok});
    }

    if profile == "slice14" {
        // slices of exactly 14 vertices taken from 14 DIFFERENT groups while all 14 groups are alive: 14 pairs
        // 2i -> 2i+1, the odd ones chained 1 -> 3 -> ... -> 27 (binding two grouped vertices changes no group), now and then
        // closed to a cycle; sliced from several starts with several predicates; the slice is used (put + data) afterwards
        let nl = o.n.max(1).min(labels.len());
        if o.cap < 28 {
            return json!({"t": tid, "profile": o.profile, "n": o.n, "cap": o.cap, "seed": o.seed, "events": rec.events, "panicked": false, "skipped": "capacity below 28"});
        }
        let base = if o.seed % 2 == 0 { 0 } else { o.cap - 28 };
        for i in 0..14 {
            ok = ok
                && rec.call(&mut w, HCall { h: 0, call: Call::Add { v: base + 2 * i } })
                && rec.call(&mut w, HCall { h: 0, call: Call::Add { v: base + 2 * i + 1 } })
                && rec.call(&mut w, HCall { h: 0, call: Call::Bind { v1: base + 2 * i, v2: base + 2 * i + 1, a: labels[i % nl].clone() } });
        }
        for i in 0..13 {
            ok = ok && rec.call(&mut w, HCall { h: 0, call: Call::Bind { v1: base + 2 * i + 1, v2: base + 2 * i + 3, a: labels[(i + 1) % nl].clone() } });
        }
        for i in (0..14).step_by(3) {
            ok = ok && rec.call(&mut w, HCall { h: 0, call: Call::Put { v: base + 2 * i + 1, d: datas[i % datas.len()].clone() } });
        }
        let mut round = 0usize;
        while ok && round < 6 {
            let start = base + 1 + 2 * (round % 3);
            let p = match round % 3 {
                0 => Pred::All,
                1 => Pred::LabelNe("zzz".to_string()),
                _ => Pred::Lt,
            };
            ok = ok && rec.call(&mut w, HCall { h: 0, call: Call::Slice { dst: 1, v: start, p } });
            if ok && w.gs.get(1).map(|x| x.is_some()).unwrap_or(false) {
                let pres = w.g(1).keys().unwrap_or_default();
                // (the slice is one group: the data are put first and read afterwards, the last read collects it)
                for v in pres.iter().take(3) {
                    ok = ok && rec.call(&mut w, HCall { h: 1, call: Call::Put { v: *v, d: datas[(round + 1) % datas.len()].clone() } });
                }
                for v in pres.iter().take(3) {
                    ok = ok && rec.call(&mut w, HCall { h: 1, call: Call::Data { v: *v } });
                }
            }
            if round == 2 && o.n >= 2 {
                // close the chain to a cycle: 27 -> 1 (the slice from 1 is still the 14 odd vertices)
                ok = ok && rec.call(&mut w, HCall { h: 0, call: Call::Bind { v1: base + 27, v2: base + 1, a: labels[(14 + 1) % nl].clone() } });
            }
            round += 1;
        }
        return json!({"t": tid, "profile": o.profile, "n": o.n, "cap": o.cap, "seed": o.seed, "events": rec.events, "panicked": !ok});
    }

    if profile == "bigdata" {
        // LARGE data (64 KiB .. 17 MiB: beyond any buffer, chunk or limit a copy or an image might have) through
        // save+load and clone / clone_from, mirrored: a pair with the big datum on one member, read once (kept: the other
        // member holds an unread one), copied, read again on both sides, then the group read out on both sides.
        // In the trace the datum is the token "~big:<len>:<seed>" (real::hex_text), so the lines stay short.
        // the destination of the copies is, to begin with, a graph of TWICE the capacity with a bound pair at ids the source
        // does not even have: clone_from / load into it must leave nothing of it behind
        ok = ok
            && rec.call(&mut w, HCall { h: 1, call: Call::New { n: o.n, cap: o.cap * 2 } })
            && rec.call(&mut w, HCall { h: 1, call: Call::Add { v: o.cap + 2 } })
            && rec.call(&mut w, HCall { h: 1, call: Call::Add { v: o.cap + 3 } })
            && rec.call(&mut w, HCall { h: 1, call: Call::Bind { v1: o.cap + 2, v2: o.cap + 3, a: labels[0].clone() } })
            && rec.call(&mut w, HCall { h: 1, call: Call::Put { v: o.cap + 3, d: datas[1].clone() } });
        let sizes = [4096usize, 70_000, 4095, (1 << 20) + 3, (16 << 20) + 1, 17 << 20, (64 << 20) + 4096];
        for (i, sz) in sizes.iter().enumerate() {
            if !ok || 2 * i + 1 >= o.cap {
                break;
            }
            let (a, b) = (2 * i, 2 * i + 1);
            let big = if *sz >= crate::real::BIG_FROM { format!("~big:{}:{}", sz, o.seed + i as u64) } else { hex_text(&crate::real::big_bytes(*sz, o.seed + i as u64)) };
            let both = |rec: &mut Recorder, w: &mut World, call: Call| -> bool {
                let r = rec.call(w, HCall { h: 0, call: call.clone() });
                if !r {
                    return false;
                }
                rec.mirror_next = true;
                rec.call(w, HCall { h: 1, call })
            };
            ok = ok
                && rec.call(&mut w, HCall { h: 0, call: Call::Add { v: a } })
                && rec.call(&mut w, HCall { h: 0, call: Call::Add { v: b } })
                && rec.call(&mut w, HCall { h: 0, call: Call::Bind { v1: a, v2: b, a: labels[i % labels.len().min(o.n.max(1))].clone() } })
                && rec.call(&mut w, HCall { h: 0, call: Call::Put { v: b, d: big.clone() } })
                && rec.call(&mut w, HCall { h: 0, call: Call::Put { v: a, d: datas[i % datas.len()].clone() } })
                && rec.call(&mut w, HCall { h: 0, call: Call::Data { v: b } })
                && rec.call(&mut w, HCall { h: 0, call: if i % 2 == 0 { Call::Clone { dst: 1 } } else { Call::Reload { dst: 1 } } });
            ok = ok && w.gs.get(1).map(|x| x.is_some()).unwrap_or(false);
            if ok && *sz <= (1 << 20) + 3 {
                // the printers on data of this size (original and copy): every byte is there (the texts are a few MB at most)
                let what: Vec<String> = ["xml", "dot", "debug", "display"].iter().map(|x| x.to_string()).collect();
                for hh in [0usize, 1] {
                    rec.events += crate::observers::observe_all(&w, hh, rec.tid, &what, rec.out);
                }
            }
            ok = ok && both(&mut rec, &mut w, Call::Data { v: b });
            ok = ok && rec.call(&mut w, HCall { h: 0, call: if i % 2 == 0 { Call::Reload { dst: 1 } } else { Call::Clone { dst: 1 } } });
            ok = ok && both(&mut rec, &mut w, Call::Data { v: b });
            ok = ok && both(&mut rec, &mut w, Call::Put { v: b, d: big.clone() });
            ok = ok && both(&mut rec, &mut w, Call::Data { v: a });
            ok = ok && both(&mut rec, &mut w, Call::Data { v: b });
        }
        return json!({"t": tid, "profile": o.profile, "n": o.n, "cap": o.cap, "seed": o.seed, "events": rec.events, "panicked": !ok});
    }

    if profile == "alloc" {
        // the allocator walked through the WHOLE id space: pairs of ids from next_id() are added, bound, given a datum, read
        // and collected; now and then a vertex is created explicitly a little above the allocator position and stays (the
        // allocator must step over it), now and then a pair is kept alive.  The driver keeps its own model of the position
        // (ids only go up, collected ids are not handed out again) and stops before the ids run out.
        let nl = o.n.max(1).min(labels.len());
        let mut nv = 0usize;                               // own model of the allocator position
        let mut taken: Vec<usize> = vec![];                // explicitly created ids at or above it
        let mut kept = 0usize;
        let mut round = 0usize;
        while ok && rec.events < o.steps {
            let avail: Vec<usize> = (nv..o.cap).filter(|i| !taken.contains(i)).collect();
            if avail.len() < 2 {
                break;
            }
            let (a, b) = (avail[0], avail[1]);
            ok = ok && rec.call(&mut w, HCall { h: 0, call: Call::NextId });
            ok = ok && rec.call(&mut w, HCall { h: 0, call: Call::Add { v: a } });
            ok = ok && rec.call(&mut w, HCall { h: 0, call: Call::NextId });
            ok = ok && rec.call(&mut w, HCall { h: 0, call: Call::Add { v: b } });
            nv = b + 1;
            ok = ok && rec.call(&mut w, HCall { h: 0, call: Call::Bind { v1: if round % 2 == 0 { a } else { b }, v2: if round % 2 == 0 { b } else { a }, a: labels[round % nl].clone() } });
            ok = ok && rec.call(&mut w, HCall { h: 0, call: Call::Put { v: b, d: datas[round % datas.len()].clone() } });
            if round % 11 == 7 && kept < 10 {
                kept += 1;                                 // this pair stays alive
            } else {
                ok = ok && rec.call(&mut w, HCall { h: 0, call: Call::Data { v: b } });
            }
            if round % 5 == 2 && nv + 8 < o.cap {
                let e = nv + 1 + (round % 3);
                ok = ok && rec.call(&mut w, HCall { h: 0, call: Call::Add { v: e } });
                taken.push(e);
            }
            round += 1;
        }
        // finale: the last ids are handed out, then the allocator is asked once more although (by the driver's own count)
        // none is left above its position - collected ids with read data lie below it.  The library may panic there (the
        // trace ends; the call is outside C05's precondition), but an id it RETURNS must still be a fresh one.
        let mut finale = 0usize;
        if ok && rec.events < o.steps + 8 {
            let left = (nv..o.cap).filter(|i| !taken.contains(i)).count();
            for _ in 0..(left + 1) {
                if !ok {
                    break;
                }
                ok = rec.call(&mut w, HCall { h: 0, call: Call::NextId });
                finale += 1;
            }
        }
        return json!({"t": tid, "profile": o.profile, "n": o.n, "cap": o.cap, "seed": o.seed, "events": rec.events, "panicked": !ok, "rounds": round, "finale": finale});
    }

    if profile == "cycle" || profile == "cycletwin" || profile == "cyclescript" {
        // Deterministic life-cycles AT the limits (nothing here looks at the object: every call is inside the limits by
        // construction, and a steering driver would walk around exactly the states this profile is for):
        // a group grown to K members (mostly exactly 16) by one of three join patterns, while G background groups (mostly
        // 13, so that the last two slots of the table are in use) stay alive; data on the member that joined last (and on
        // others, now and then on all 16, now and then overwritten); "cycletwin": clone() or save+load at that full state,
        // every later call mirrored on the copy; all data read (the last read collects the group); three of its ids
        // re-created, read, bound into a new group that takes a slot over, read and collected; the id window rotates.
        // "cyclescript": the same life-cycles, but every add/bind/put goes through Script::deploy_to in chunks of 1 to 40
        // commands (literal ids), after one script with 33 to 48 variables; data() calls are made directly.
        let twin_mode = profile == "cycletwin";
        let script_mode = profile == "cyclescript";
        let labels: Vec<String> = if script_mode {
            labels.iter().filter(|a| !a.starts_with('~') && !a.chars().any(char::is_whitespace) && !a.contains('-') && !a.contains(',')).cloned().collect()
        } else {
            labels.clone()
        };
        let datas: Vec<String> = if script_mode { datas.iter().filter(|d| d.as_str() != "--" && !d.contains('~')).cloned().collect() } else { datas.clone() };
        let nl = o.n.max(1).min(labels.len());
        let mut buf: Vec<Call> = vec![];
        let mut flushes = 0usize;
        let mut chunk = 1 + (o.seed as usize % 7);
        macro_rules! flush {
            () => {{
                if !buf.is_empty() {
                    let mut prog: Vec<Value> = vec![];
                    let mut texts: Vec<String> = vec![];
                    for (i, c) in buf.iter().enumerate() {
                        let lit = |v: usize| if (i + flushes) % 2 == 0 { format!("ν{v}") } else { format!("{v}") };
                        match c {
                            Call::Add { v } => {
                                prog.push(json!({"c": "ADD", "v": {"k": "lit", "id": v}}));
                                texts.push(format!("ADD({})", lit(*v)));
                            }
                            Call::Bind { v1, v2, a } => {
                                prog.push(json!({"c": "BIND", "v1": {"k": "lit", "id": v1}, "v2": {"k": "lit", "id": v2}, "a": a}));
                                texts.push(format!("BIND({}, {},{a})", lit(*v1), lit(*v2)));
                            }
                            Call::Put { v, d } => {
                                prog.push(json!({"c": "PUT", "v": {"k": "lit", "id": v}, "d": d}));
                                texts.push(format!("PUT( {} , {} )", lit(*v), if i % 2 == 0 { d.to_lowercase() } else { d.clone() }));
                            }
                            _ => {}
                        }
                    }
                    let sep = ["; ", ";\n", " ;\t# comment; with ) and $v9\n", ";\n  "][flushes % 4];
                    let mut text = if flushes % 3 == 0 { "# header\n".to_string() } else { String::new() };
                    for t in &texts {
                        text.push_str(t);
                        text.push_str(sep);
                    }
                    buf.clear();
                    flushes += 1;
                    chunk = 1 + (chunk * 5 + 3) % 40;
                    ok = ok && rec.call(&mut w, HCall { h: 0, call: Call::Deploy { text, prog: json!(prog), fault_at: 0 } });
                }
            }};
        }
        let span = o.cap.saturating_sub(26);
        if span < 20 {
            return json!({"t": tid, "profile": o.profile, "n": o.n, "cap": o.cap, "seed": o.seed, "events": rec.events, "panicked": false, "skipped": "capacity below 46"});
        }
        let ks = [16usize, 16, 15, 16, 2, 16, 8, 16];
        let gs_ = [13usize, 0, 13, 12, 13, 5, 13, 1];
        let mut bg = vec![false; 13];
        let mut twin_alive = false;
        let mut off = (o.seed as usize * 7) % span;
        let mut round = (o.seed as usize) % 8;
        macro_rules! go {
            ($c:expr) => {{
                let c: Call = $c;
                if script_mode && matches!(c, Call::Add { .. } | Call::Bind { .. } | Call::Put { .. }) {
                    buf.push(c);
                    if buf.len() >= chunk {
                        flush!();
                    }
                } else {
                    flush!();
                    ok = ok && rec.call(&mut w, HCall { h: 0, call: c.clone() });
                    if ok && twin_alive {
                        rec.mirror_next = true;
                        ok = rec.call(&mut w, HCall { h: 1, call: c });
                    }
                }
            }};
        }
        if script_mode {
            // one script with many variables: k vertices in groups of four (a chain each), a datum on the last of each group;
            // on a fresh graph the variables get the ids 0..k-1 (the driver's own model), so the groups can be read away
            let k = 33 + (o.seed as usize % 16);
            let mut prog: Vec<Value> = vec![];
            let mut texts: Vec<String> = vec![];
            for i in 0..k {
                prog.push(json!({"c": "ADD", "v": {"k": "var", "name": format!("v{i}")}}));
                texts.push(format!("ADD($v{i})"));
            }
            for i in 0..k {
                if i % 4 != 0 {
                    let a = labels[i % nl].clone();
                    prog.push(json!({"c": "BIND", "v1": {"k": "var", "name": format!("v{}", i - 1)}, "v2": {"k": "var", "name": format!("v{i}")}, "a": a}));
                    texts.push(format!("BIND($v{}, $v{i}, {a})", i - 1));
                }
            }
            let mut holders = vec![];
            for i in 0..k {
                if i % 4 == 3 || (i == k - 1 && i % 4 != 0) {
                    let d = datas[i % datas.len()].clone();
                    prog.push(json!({"c": "PUT", "v": {"k": "var", "name": format!("v{i}")}, "d": d}));
                    texts.push(format!("PUT($v{i}, {d})"));
                    holders.push(i);
                }
            }
            let text = texts.join(";\n") + ";\n";
            ok = ok && rec.call(&mut w, HCall { h: 0, call: Call::Deploy { text, prog: json!(prog), fault_at: 0 } });
            for v in holders {
                ok = ok && rec.call(&mut w, HCall { h: 0, call: Call::Data { v } });
            }
        }
        while ok && rec.events < o.steps {
            let k = ks[round % 8];
            let g = gs_[(round / 2 + round) % 8];
            let pat = round % 3;
            let bg_first = round % 4 != 3;
            let m: Vec<usize> = (0..k).map(|i| (off + i) % span).collect();
            let adjust_bg = |bg: &Vec<bool>| -> Vec<(usize, bool)> {
                // (index, create?) : create the missing ones below g, release those at or above g
                (0..13).filter_map(|i| if i < g && !bg[i] { Some((i, true)) } else if i >= g && bg[i] { Some((i, false)) } else { None }).collect()
            };
            if twin_mode && twin_alive && round % 3 == 2 && bg.iter().filter(|b| **b).count() <= 11 {
                // roll back to the checkpoint: two pairs are created on the original ONLY (it diverges: two group slots more
                // than the copy has in use), then the original is overwritten with the copy - `g.clone_from(&checkpoint)`.
                // From here on both are mirrored again and filled up to 14 groups: the slots of the two lost pairs must be free.
                for j in 0..2usize {
                    let (p_, q_) = ((off + 16 + 2 * j) % span, (off + 17 + 2 * j) % span);
                    ok = ok
                        && rec.call(&mut w, HCall { h: 0, call: Call::Add { v: p_ } })
                        && rec.call(&mut w, HCall { h: 0, call: Call::Add { v: q_ } })
                        && rec.call(&mut w, HCall { h: 0, call: Call::Bind { v1: p_, v2: q_, a: labels[j % nl].clone() } })
                        && rec.call(&mut w, HCall { h: 0, call: Call::Put { v: q_, d: datas[(round + j) % datas.len()].clone() } });
                }
                ok = ok && rec.call(&mut w, HCall { h: 1, call: Call::Clone { dst: 0 } });
            }
            if bg_first {
                for (i, create) in adjust_bg(&bg) {
                    let (a, b) = (o.cap - 2 * (i + 1), o.cap - 2 * (i + 1) + 1);
                    if create {
                        go!(Call::Add { v: a });
                        go!(Call::Add { v: b });
                        go!(Call::Bind { v1: if i % 2 == 0 { a } else { b }, v2: if i % 2 == 0 { b } else { a }, a: labels[i % nl].clone() });
                        go!(Call::Put { v: b, d: datas[(i + round) % datas.len()].clone() });
                    } else {
                        go!(Call::Data { v: b });
                    }
                    bg[i] = create;
                }
            }
            // the main group
            for v in &m {
                go!(Call::Add { v: *v });
            }
            for i in 1..k {
                let par = m[(i - 1) / nl];
                let down = match pat { 0 => true, 1 => false, _ => i % 2 == 0 };
                if down {
                    go!(Call::Bind { v1: par, v2: m[i], a: labels[(i - 1) % nl].clone() });
                } else {
                    go!(Call::Bind { v1: m[i], v2: par, a: labels[(round + i) % nl].clone() });
                }
            }
            if k >= 3 {
                // an edge between two MEMBERS of the (possibly full) group: no group changes; the vertex that joined last
                // re-uses its own label if it has one (so that N = 1 stays inside the limits)
                let i = k - 1;
                let down = match pat { 0 => true, 1 => false, _ => i % 2 == 0 };
                let a = if down { labels[0].clone() } else { labels[(round + i) % nl].clone() };
                go!(Call::Bind { v1: m[k - 1], v2: m[1], a });
            }
            if bg[0] {
                // an edge from the first background pair into the group: paths that run through several groups (with N = 1 the
                // group is a chain of 16, so this path is 18 vertices deep); it dangles once the group is collected
                go!(Call::Bind { v1: o.cap - 1, v2: m[0], a: labels[0].clone() });
            }
            if !bg_first {
                for (i, create) in adjust_bg(&bg) {
                    let (a, b) = (o.cap - 2 * (i + 1), o.cap - 2 * (i + 1) + 1);
                    if create {
                        go!(Call::Add { v: a });
                        go!(Call::Add { v: b });
                        go!(Call::Bind { v1: a, v2: b, a: labels[i % nl].clone() });
                        go!(Call::Put { v: b, d: datas[(i + round) % datas.len()].clone() });
                    } else {
                        go!(Call::Data { v: b });
                    }
                    bg[i] = create;
                }
            }
            // data: always on the member that joined last; all members every fourth round
            let mut holders: Vec<usize> = vec![m[k - 1]];
            if round % 4 == 1 {
                holders = m.clone();
            } else {
                if round % 2 == 0 {
                    holders.push(m[0]);
                }
                if k > 4 {
                    holders.push(m[k / 2]);
                }
            }
            holders.dedup();
            for (i, v) in holders.iter().enumerate() {
                go!(Call::Put { v: *v, d: datas[(i + round) % datas.len()].clone() });
            }
            if round % 3 == 0 {
                go!(Call::Put { v: holders[holders.len() / 2], d: datas[(round + 5) % datas.len()].clone() });   // over an unread datum
            }
            if twin_mode {
                let c = if (round + o.seed as usize) % 2 == 0 { Call::Clone { dst: 1 } } else { Call::Reload { dst: 1 } };
                ok = ok && rec.call(&mut w, HCall { h: 0, call: c });
                twin_alive = ok && w.gs.get(1).map(|x| x.is_some()).unwrap_or(false);
            }
            // a second datum in a group that holds an unread one, put and read at once (on the copy as well): the group stays -
            // its first datum is still unread, whatever the copy made of the counters: in the main group (a member that is not
            // a holder) and in the background pairs created first and last (the a-side; the b-side holds the unread datum)
            if let Some(wv) = m.iter().copied().find(|v| !holders.contains(v)) {
                go!(Call::Put { v: wv, d: datas[(round + 7) % datas.len()].clone() });
                go!(Call::Data { v: wv });
            }
            for i in [0usize, g.saturating_sub(1), g / 2] {
                if i < 13 && bg[i] {
                    let a = o.cap - 2 * (i + 1);
                    go!(Call::Put { v: a, d: datas[(round + i) % datas.len()].clone() });
                    go!(Call::Data { v: a });
                }
            }
            // read everything (a second read of the first holder in between: Taken, counts nothing)
            let order: Vec<usize> = if round % 2 == 0 { holders.clone() } else { holders.iter().rev().copied().collect() };
            for (i, v) in order.iter().enumerate() {
                go!(Call::Data { v: *v });
                if i == 0 && order.len() > 1 {
                    go!(Call::Data { v: *v });
                }
            }
            // the group is gone: re-create three of its ids (the one that joined last first), read, bind, read
            if k >= 3 {
                let (x, y, z) = (m[k - 1], m[0], m[k / 2]);
                if x != y && y != z && x != z {
                    go!(Call::Add { v: x });
                    go!(Call::Data { v: x });
                    // an unrelated pair takes the slot the group has just given back; x - on its own, never bound to the pair -
                    // gets a datum and is read: nothing may disappear; then the pair is read away
                    let (p_, q_) = ((off + k) % span, (off + k + 1) % span);
                    go!(Call::Add { v: p_ });
                    go!(Call::Add { v: q_ });
                    go!(Call::Bind { v1: p_, v2: q_, a: labels[round % nl].clone() });
                    go!(Call::Put { v: x, d: datas[(round + 3) % datas.len()].clone() });
                    go!(Call::Data { v: x });
                    go!(Call::Put { v: q_, d: datas[(round + 4) % datas.len()].clone() });
                    go!(Call::Data { v: q_ });
                    go!(Call::Add { v: y });
                    go!(Call::Add { v: z });
                    go!(Call::Bind { v1: x, v2: y, a: labels[(round + 1) % nl].clone() });
                    go!(Call::Bind { v1: z, v2: x, a: labels[round % nl].clone() });
                    go!(Call::Put { v: z, d: datas[(round + 2) % datas.len()].clone() });
                    go!(Call::Put { v: x, d: datas[(round + 6) % datas.len()].clone() });
                    go!(Call::Data { v: x });
                    go!(Call::Data { v: x });
                    go!(Call::Data { v: z });
                }
            } else {
                // k = 2: the pair was collected above as well
            }
            off = (off + 5) % span;
            round += 1;
        }
        flush!();
        return json!({"t": tid, "profile": o.profile, "n": o.n, "cap": o.cap, "seed": o.seed, "events": rec.events, "panicked": !ok, "rounds": round});
    }

    if profile == "limits" {
        // many short histories: a prefix inside the limits, ONE call that oversteps a limit or a precondition, a few more
        // calls on the (possibly inconsistent) object for the sanitizer's sake, then a fresh graph
        let mut first = true;
        while rec.events < o.steps {
            if !first {
                rec.tid += 1000;
                w = World::new(o.n, o.cap, o.scratch.clone());
                w.labels = labels.clone();
                rec.reset(&w);
            }
            first = false;
            let kind = rng.gen_range(0..17);
            if kind >= 14 {
                // an id at or above the capacity handed to a COMPOSITE call: merge (left beyond the left graph; right beyond the
                // right graph - which is smaller than the left one, so the id is a good one on the left) or slice
                let mut seq: Vec<HCall> = vec![];
                for v in [0usize, 1] {
                    seq.push(HCall { h: 0, call: Call::Add { v } });
                }
                seq.push(HCall { h: 0, call: Call::Bind { v1: 0, v2: 1, a: labels[0].clone() } });
                let small = (o.cap / 2).max(2);
                seq.push(HCall { h: 1, call: Call::New { n: o.n, cap: small } });
                seq.push(HCall { h: 1, call: Call::Add { v: 0 } });
                seq.push(HCall { h: 1, call: Call::Add { v: 1 } });
                seq.push(HCall { h: 1, call: Call::Bind { v1: 0, v2: 1, a: labels[1 % labels.len()].clone() } });
                let bigl = [o.cap, o.cap + 1, usize::MAX][rng.gen_range(0..3)];
                let bigr = [small, small + 1, o.cap, usize::MAX][rng.gen_range(0..4)];
                seq.push(match kind {
                    14 => HCall { h: 0, call: Call::Merge { src: 1, left: 0, right: bigr } },
                    15 => HCall { h: 0, call: Call::Merge { src: 1, left: bigl, right: 0 } },
                    _ => HCall { h: 0, call: Call::Slice { dst: 2, v: bigl, p: Pred::All } },
                });
                for c in seq {
                    let _ = rec.call(&mut w, c);
                }
                for _ in 0..rng.gen_range(2..6) {
                    let pres = w.g(0).keys().unwrap_or_default();
                    let c = match rng.gen_range(0..4) {
                        0 => Call::Add { v: rng.gen_range(0..8.min(o.cap)) },
                        1 if !pres.is_empty() => Call::Data { v: *pres.choose(&mut rng).unwrap() },
                        2 if !pres.is_empty() => Call::Put { v: *pres.choose(&mut rng).unwrap(), d: datas[6].clone() },
                        _ => Call::Clone { dst: 2 },
                    };
                    let _ = rec.call(&mut w, HCall { h: 0, call: c });
                }
                continue;
            }
            if kind >= 12 {
                // a merge of a NON-TREE right graph (join() unifies vertices and vacates a slot): documented as "unpredictable",
                // void for every lens, but memory safety is claimed for it too - the sanitizer watches what follows
                let l = |i: usize| labels[i % labels.len()].clone();
                let mut seq: Vec<HCall> = vec![];
                for v in [0usize, 1, 2] {
                    seq.push(HCall { h: 0, call: Call::Add { v } });
                }
                seq.push(HCall { h: 0, call: Call::Bind { v1: 0, v2: 1, a: l(0) } });
                seq.push(HCall { h: 0, call: Call::Bind { v1: 1, v2: 2, a: l(1) } });
                seq.push(HCall { h: 1, call: Call::New { n: o.n, cap: o.cap } });
                for v in [0usize, 4, 3, 5] {
                    seq.push(HCall { h: 1, call: Call::Add { v } });
                }
                seq.push(HCall { h: 1, call: Call::Bind { v1: 0, v2: 3, a: l(0) } });
                if o.n >= 2 {
                    seq.push(HCall { h: 1, call: Call::Bind { v1: 0, v2: 4, a: l(2) } });
                }
                seq.push(HCall { h: 1, call: Call::Bind { v1: 4, v2: 3, a: l(3) } });
                seq.push(HCall { h: 1, call: Call::Bind { v1: 3, v2: 5, a: l(4) } });
                if kind == 13 {
                    seq.push(HCall { h: 1, call: Call::Bind { v1: 5, v2: 0, a: l(1) } });   // a cycle back to the root
                    seq.push(HCall { h: 1, call: Call::Put { v: 3, d: datas[4].clone() } });
                }
                seq.push(HCall { h: 0, call: Call::Merge { src: 1, left: 0, right: 0 } });
                for c in seq {
                    let _ = rec.call(&mut w, c);
                }
                for _ in 0..rng.gen_range(4..14) {
                    let pres = w.g(0).keys().unwrap_or_default();
                    let c = match rng.gen_range(0..8) {
                        0 => Call::Add { v: rng.gen_range(0..8.min(o.cap)) },
                        1 if !pres.is_empty() => Call::Data { v: *pres.choose(&mut rng).unwrap() },
                        2 if !pres.is_empty() => Call::Put { v: *pres.choose(&mut rng).unwrap(), d: datas[6].clone() },
                        3 => Call::Clone { dst: 2 },
                        4 => Call::Reload { dst: 2 },
                        5 if !pres.is_empty() => Call::Slice { dst: 2, v: *pres.choose(&mut rng).unwrap(), p: Pred::All },
                        6 => Call::NextId,
                        7 if pres.len() >= 2 => Call::Bind { v1: pres[0], v2: pres[pres.len() - 1], a: l(5) },
                        _ => continue,
                    };
                    let _ = rec.call(&mut w, HCall { h: 0, call: c });
                    let _ = w.g(0).debug();
                    let _ = w.g(0).to_xml();
                    let _ = w.g(0).inspect(0);
                }
                continue;
            }
            // prefix
            let plen = rng.gen_range(3..40);
            let mut alive_ok = true;
            if kind == 3 {
                // a group of 16 (both join directions), so that the 17th member is within reach
                alive_ok = rec.call(&mut w, HCall { h: 0, call: Call::Add { v: 0 } });
                for i in 1..16 {
                    alive_ok = alive_ok && rec.call(&mut w, HCall { h: 0, call: Call::Add { v: i } });
                    let (v1, v2) = if i % 2 == 0 { (i, i - 1) } else { (i - 1, i) };
                    alive_ok = alive_ok && rec.call(&mut w, HCall { h: 0, call: Call::Bind { v1, v2, a: labels[0].clone() } });
                }
            } else if kind == 4 {
                for i in 0..14 {
                    alive_ok = alive_ok
                        && rec.call(&mut w, HCall { h: 0, call: Call::Add { v: 2 * i } })
                        && rec.call(&mut w, HCall { h: 0, call: Call::Add { v: 2 * i + 1 } })
                        && rec.call(&mut w, HCall { h: 0, call: Call::Bind { v1: 2 * i, v2: 2 * i + 1, a: labels[0].clone() } });
                }
            } else {
                for _ in 0..plen {
                    if !alive_ok {
                        break;
                    }
                    let pres = w.g(0).keys().unwrap_or_default();
                    let c = match rng.gen_range(0..5) {
                        0 | 1 => Call::Add { v: rng.gen_range(0..win.min(o.cap)) },
                        2 if pres.len() >= 2 => {
                            let v1 = *pres.choose(&mut rng).unwrap();
                            let v2 = *pres.choose(&mut rng).unwrap();
                            let have: Vec<String> = rec.own.get(&(0, v1)).cloned().unwrap_or_else(|| w.g(0).kids(v1).unwrap_or_default().into_iter().map(|x| x.0).collect());
                            if v1 == v2 {
                                continue;
                            }
                            let a = if have.len() >= o.n { have.choose(&mut rng).cloned().unwrap() } else { labels.choose(&mut rng).unwrap().clone() };
                            Call::Bind { v1, v2, a }
                        }
                        3 if !pres.is_empty() => Call::Put { v: *pres.choose(&mut rng).unwrap(), d: datas.choose(&mut rng).unwrap().clone() },
                        4 if !pres.is_empty() => Call::Data { v: *pres.choose(&mut rng).unwrap() },
                        _ => continue,
                    };
                    alive_ok = rec.call(&mut w, HCall { h: 0, call: c });
                }
            }
            if !alive_ok {
                continue;
            }
            // the overstepping call
            let pres = w.g(0).keys().unwrap_or_default();
            let big = [o.cap, o.cap + 1, o.cap + 1000, usize::MAX][rng.gen_range(0..4)];
            let absent: Vec<usize> = (0..o.cap).filter(|v| !pres.contains(v)).collect();
            let some = pres.choose(&mut rng).copied();
            let gone = absent.choose(&mut rng).copied();
            let bad: Option<Call> = match kind {
                0 => Some(Call::Add { v: big }),
                1 => some.map(|v| if rng.gen_bool(0.5) { Call::Bind { v1: v, v2: big, a: labels[0].clone() } } else { Call::Bind { v1: big, v2: v, a: labels[0].clone() } }),
                2 => {
                    // the N+1st label on a vertex: fill it first
                    match (some, pres.iter().copied().find(|x| Some(*x) != some)) {
                        (Some(v1), Some(v2)) => {
                            let mut okk = true;
                            for a in labels.iter().take(o.n) {
                                okk = okk && rec.call(&mut w, HCall { h: 0, call: Call::Bind { v1, v2, a: a.clone() } });
                            }
                            if okk { labels.get(o.n).map(|a| Call::Bind { v1, v2, a: a.clone() }) } else { None }
                        }
                        _ => None,
                    }
                }
                3 => {
                    // the 17th member, from either side
                    let _ = rec.call(&mut w, HCall { h: 0, call: Call::Add { v: 16 } });
                    Some(if rng.gen_bool(0.5) { Call::Bind { v1: 16, v2: rng.gen_range(0..16), a: labels[0].clone() } } else { Call::Bind { v1: rng.gen_range(0..16), v2: 16, a: labels[1 % labels.len()].clone() } })
                }
                4 => {
                    let _ = rec.call(&mut w, HCall { h: 0, call: Call::Add { v: 28 } });
                    let _ = rec.call(&mut w, HCall { h: 0, call: Call::Add { v: 29 } });
                    Some(Call::Bind { v1: 28, v2: 29, a: labels[0].clone() })
                }
                5 => Some(Call::Put { v: big, d: datas[2].clone() }),
                6 => Some(Call::Data { v: big }),
                7 => gone.map(|v| Call::Put { v, d: datas[5].clone() }),
                8 => gone.map(|v| Call::Data { v }),
                9 => match (some, gone) {
                    (Some(v), Some(g)) => Some(Call::Bind { v1: v, v2: g, a: labels[0].clone() }),
                    _ => None,
                },
                10 => some.map(|v| Call::Bind { v1: v, v2: v, a: labels[0].clone() }),
                _ => {
                    // exhaust the allocator
                    let mut okk = true;
                    for _ in 0..o.cap + 1 {
                        okk = okk && rec.call(&mut w, HCall { h: 0, call: Call::NextId });
                        if !okk {
                            break;
                        }
                    }
                    None
                }
            };
            if let Some(c) = bad {
                let _ = rec.call(&mut w, HCall { h: 0, call: c });
            }
            // keep using the object: reads, exports, clone, save/load (the sanitizer watches; the judge has stopped)
            for _ in 0..rng.gen_range(2..8) {
                let pres = w.g(0).keys().unwrap_or_default();
                let c = match rng.gen_range(0..6) {
                    0 => Call::Add { v: rng.gen_range(0..o.cap) },
                    1 if !pres.is_empty() => Call::Data { v: *pres.choose(&mut rng).unwrap() },
                    2 if !pres.is_empty() => Call::Put { v: *pres.choose(&mut rng).unwrap(), d: datas[6].clone() },
                    3 => Call::Clone { dst: 1 },
                    4 => Call::Reload { dst: 1 },
                    5 if !pres.is_empty() => Call::Slice { dst: 1, v: *pres.choose(&mut rng).unwrap(), p: Pred::All },
                    _ => continue,
                };
                let _ = rec.call(&mut w, HCall { h: 0, call: c });
                let _ = w.g(0).debug();
                let _ = w.g(0).to_xml();
                let _ = w.g(0).to_dot();
            }
        }
        return json!({"t": tid, "profile": o.profile, "n": o.n, "cap": o.cap, "seed": o.seed, "events": rec.events, "panicked": false});
    }

    if profile == "merge" {
        // at most N distinct labels in play, so that no merged vertex can exceed the edge capacity
        let labels: Vec<String> = labels.iter().take(o.n.max(1)).cloned().collect();
        // rounds of: a random tree g on handle 0, a random tree h (+ sometimes extras) on handle 1, merge, reads
        let tree = |rng: &mut StdRng, rec: &mut Recorder, w: &mut World, h: usize, size: usize, extras: usize, star: bool| -> (bool, Vec<usize>) {
            // the right graph now and then has ANOTHER capacity than the left one (twice as large, ids up to there; or just large
            // enough for the ids in play): nothing says the operands of a merge are of one size
            let (capx, idspace) = if h == 1 && rng.gen_bool(0.3) {
                if rng.gen_bool(0.7) { (o.cap * 2, (win * 2).min(o.cap * 2)) } else { (win.max(2), win) }
            } else {
                (o.cap, win)
            };
            let mut ok = rec.call(w, HCall { h, call: Call::New { n: o.n, cap: capx } });
            let mut ids: Vec<usize> = (0..idspace).collect();
            ids.shuffle(rng);
            if h == 0 && rng.gen_bool(0.5) && win >= 4 {
                // history: a group that lived and was collected before the tree is built (its ids come back through next_id())
                let (a, b) = (ids[0], ids[1]);
                ok = ok
                    && rec.call(w, HCall { h, call: Call::Add { v: a } })
                    && rec.call(w, HCall { h, call: Call::Add { v: b } })
                    && rec.call(w, HCall { h, call: Call::Bind { v1: a, v2: b, a: labels[0].clone() } })
                    && rec.call(w, HCall { h, call: Call::Put { v: b, d: datas[3].clone() } })
                    && rec.call(w, HCall { h, call: Call::Data { v: b } });
                ids.shuffle(rng);
            }
            let verts: Vec<usize> = ids.iter().copied().take(size).collect();
            let ext: Vec<usize> = ids.iter().copied().skip(size).take(extras).collect();
            for v in verts.iter().chain(ext.iter()) {
                ok = ok && rec.call(w, HCall { h, call: Call::Add { v: *v } });
            }
            let mut used: BTreeMap<usize, Vec<String>> = BTreeMap::new();
            for i in 1..verts.len() {
                // parent among the earlier ones that still has a free label
                let cands: Vec<usize> = verts[..i].iter().copied().filter(|p| used.get(p).map(|u| u.len()).unwrap_or(0) < o.n.min(labels.len())).collect();
                // star: the first candidate (the root while it has a free label), so that wide vertices occur
                let Some(par) = (if star { cands.first().copied() } else { cands.choose(rng).copied() }) else { break };
                let u = used.entry(par).or_default();
                let free: Vec<&String> = labels.iter().filter(|l| !u.contains(l)).collect();
                let a = (*free.choose(rng).unwrap()).clone();
                u.push(a.clone());
                ok = ok && rec.call(w, HCall { h, call: Call::Bind { v1: par, v2: verts[i], a } });
            }
            // extra vertices with an edge INTO the tree (to the root or deeper): not reachable from the root all the same; at most
            // two of them, and only on the right, small trees (they join the tree's group)
            if h == 1 && !ext.is_empty() && verts.len() <= 12 && rng.gen_bool(0.5) {
                for (j, x) in ext.iter().take(2).enumerate() {
                    let t = if j == 0 || rng.gen_bool(0.5) { verts[0] } else { *verts.choose(rng).unwrap() };
                    ok = ok && rec.call(w, HCall { h, call: Call::Bind { v1: *x, v2: t, a: labels.choose(rng).unwrap().clone() } });
                }
            }
            for v in verts.iter().chain(ext.iter()) {
                if rng.gen_bool(0.5) {
                    ok = ok && rec.call(w, HCall { h, call: Call::Put { v: *v, d: datas.choose(rng).unwrap().clone() } });
                }
            }
            // read some data before the merge (only while the vertex is still present)
            for v in verts.iter() {
                if rng.gen_bool(0.2) && w.g(h).keys().unwrap_or_default().contains(v) {
                    ok = ok && rec.call(w, HCall { h, call: Call::Data { v: *v } });
                }
            }
            (ok, verts)
        };
        let mut first_round = true;
        while ok && rec.events < o.steps {
            // every round starts from two fresh graphs, so every round is a history of its own: a new trace for the judge
            // (a merge that leaves the limits then voids that round only, not everything after it)
            if !first_round {
                rec.tid += 1000;
                w = World::new(o.n, o.cap, o.scratch.clone());
                w.labels = labels.clone();
                rec.reset(&w);
            }
            first_round = false;
            if win >= 60 && o.n >= 2 && rng.gen_bool(0.15) {
                // trees that span several groups (sub-trees built on their own and linked afterwards: binding two grouped
                // vertices changes no group), 17 to 22 vertices; g has the same shape but for one or two leaves
                // variant "full": ONE group of exactly 16 in both graphs (nothing can be added under it, nothing has to be),
                // the right graph now and then with isolated extra vertices (which the merge must report)
                let full = rng.gen_bool(0.4);
                // variant "chain": the tree is ONE path through both components, 19 to 21 edges deep (deeper than a group is
                // large, deeper than anything a single group can hold)
                let chain = !full && rng.gen_bool(0.35);
                let total = if full { 16 } else if chain { rng.gen_range(20..=22usize) } else { rng.gen_range(17..=22usize) };
                let a = if full { total } else { rng.gen_range((total - 11).max(6)..=11usize.min(total - 6)) };
                let nlab = o.n.min(labels.len());
                // shape[i] = (parent index, label index); component A = 0..a, component B = a..total (B's root hangs below A)
                let mut shape: Vec<(usize, usize)> = vec![(0, 0); total];
                let mut usedl: Vec<Vec<usize>> = vec![vec![]; total];
                for i in 1..total {
                    // (the last vertex of A may be left out of g: it has to stay a leaf, so B never hangs below it)
                    let (lo, hi) = if i < a { (0, i) } else if i == a { (0, a - 1) } else { (a, i) };
                    let cands: Vec<usize> = (lo..hi).filter(|p| usedl[*p].len() < nlab).collect();
                    let Some(par) = (if chain { cands.last().copied() } else { cands.choose(&mut rng).copied() }) else { continue };
                    let free: Vec<usize> = (0..nlab).filter(|l| !usedl[par].contains(l)).collect();
                    let l = *free.choose(&mut rng).unwrap();
                    usedl[par].push(l);
                    shape[i] = (par, l);
                }
                let mut drop_g: Vec<usize> = if full { vec![] } else { vec![total - 1] };
                if !full && rng.gen_bool(0.5) {
                    drop_g.push(a - 1);
                }
                let h_extras = if full { rng.gen_range(0..=2usize) } else { 0 };
                let mut roots = (0usize, 0usize);
                for h in [0usize, 1] {
                    ok = ok && rec.call(&mut w, HCall { h, call: Call::New { n: o.n, cap: o.cap } });
                    let mut ids: Vec<usize> = (0..win).collect();
                    ids.shuffle(&mut rng);
                    let skip = |i: usize| h == 0 && drop_g.contains(&i);
                    for i in 0..total {
                        if !skip(i) {
                            ok = ok && rec.call(&mut w, HCall { h, call: Call::Add { v: ids[i] } });
                        }
                    }
                    if h == 1 {
                        for x in 0..h_extras {
                            ok = ok && rec.call(&mut w, HCall { h, call: Call::Add { v: ids[total + x] } });
                        }
                    }
                    for i in (1..total).filter(|i| *i != a).chain(std::iter::once(a)) {
                        if i < total && !skip(i) {
                            ok = ok && rec.call(&mut w, HCall { h, call: Call::Bind { v1: ids[shape[i].0], v2: ids[i], a: labels[shape[i].1].clone() } });
                        }
                    }
                    for i in 0..total {
                        if !skip(i) && rng.gen_bool(0.4) {
                            ok = ok && rec.call(&mut w, HCall { h, call: Call::Put { v: ids[i], d: datas.choose(&mut rng).unwrap().clone() } });
                        }
                    }
                    if h == 0 { roots.0 = ids[0] } else { roots.1 = ids[0] }
                }
                ok = ok && rec.call(&mut w, HCall { h: 0, call: Call::Merge { src: 1, left: roots.0, right: roots.1 } });
                for _ in 0..rng.gen_range(4..16) {
                    if !ok {
                        break;
                    }
                    let pres = w.g(0).keys().unwrap_or_default();
                    let Some(v) = pres.choose(&mut rng).copied() else { break };
                    ok = rec.call(&mut w, HCall { h: 0, call: Call::Data { v } });
                }
                continue;
            }
            if rng.gen_bool(0.15) && win >= 12 {
                // "tight": the left graph has exactly as many ids to spare as the merge needs.  Its vertices come from
                // next_id() (so the allocator stands right behind them), its capacity is their number plus the k leaves the
                // right tree has in addition (k = 0, 1, 2; now and then one id more); the right tree repeats the left one
                // label by label, so that all but k of its vertices are found, not created.
                let total = rng.gen_range(2..=8usize);
                let k = rng.gen_range(0..=2usize);
                let nlab = o.n.min(labels.len());
                let mut shape: Vec<(usize, usize)> = vec![(0, 0); total + k];
                let mut usedl: Vec<Vec<usize>> = vec![vec![]; total + k];
                let mut built = 1usize;
                for i in 1..(total + k) {
                    // the k additional leaves (indices total..) hang below vertices of the shared part
                    let hi = i.min(total);
                    let cands: Vec<usize> = (0..hi).filter(|p| usedl[*p].len() < nlab).collect();
                    let Some(par) = cands.choose(&mut rng).copied() else { break };
                    let free: Vec<usize> = (0..nlab).filter(|l| !usedl[par].contains(l)).collect();
                    let l = *free.choose(&mut rng).unwrap();
                    usedl[par].push(l);
                    shape[i] = (par, l);
                    built = i + 1;
                }
                let total = total.min(built);
                let extra = built - total;
                let cap_g = built + usize::from(rng.gen_bool(0.25));
                ok = ok && rec.call(&mut w, HCall { h: 0, call: Call::New { n: o.n, cap: cap_g } });
                let mut gids = vec![];
                for _ in 0..total {
                    ok = ok && rec.call(&mut w, HCall { h: 0, call: Call::NextId });
                    let Some(id) = rec.last_id else { break };
                    gids.push(id);
                    ok = ok && rec.call(&mut w, HCall { h: 0, call: Call::Add { v: id } });
                }
                if !ok || gids.len() < total {
                    break;
                }
                for i in 1..total {
                    ok = ok && rec.call(&mut w, HCall { h: 0, call: Call::Bind { v1: gids[shape[i].0], v2: gids[i], a: labels[shape[i].1].clone() } });
                }
                ok = ok && rec.call(&mut w, HCall { h: 1, call: Call::New { n: o.n, cap: o.cap } });
                let mut ids: Vec<usize> = (0..win).collect();
                ids.shuffle(&mut rng);
                for i in 0..(total + extra) {
                    ok = ok && rec.call(&mut w, HCall { h: 1, call: Call::Add { v: ids[i] } });
                }
                for i in 1..(total + extra) {
                    ok = ok && rec.call(&mut w, HCall { h: 1, call: Call::Bind { v1: ids[shape[i].0], v2: ids[i], a: labels[shape[i].1].clone() } });
                }
                for i in 0..(total + extra) {
                    if rng.gen_bool(0.5) {
                        ok = ok && rec.call(&mut w, HCall { h: 1, call: Call::Put { v: ids[i], d: datas.choose(&mut rng).unwrap().clone() } });
                    }
                }
                ok = ok && rec.call(&mut w, HCall { h: 0, call: Call::Merge { src: 1, left: gids[0], right: ids[0] } });
                for _ in 0..rng.gen_range(2..8) {
                    if !ok {
                        break;
                    }
                    let pres = w.g(0).keys().unwrap_or_default();
                    let Some(v) = pres.choose(&mut rng).copied() else { break };
                    ok = rec.call(&mut w, HCall { h: 0, call: Call::Data { v } });
                }
                continue;
            }
            let gs = rng.gen_range(1..=7usize.min(win));
            let hs = rng.gen_range(1..=(if o.n >= 6 { 10usize } else { 7 }).min(win));
            let star = rng.gen_bool(0.3);
            // extras: usually none, sometimes one or two, now and then more than a group's worth (17..30 isolated vertices)
            let ex = if win >= 48 && rng.gen_bool(0.12) { rng.gen_range(17..=30) } else if rng.gen_bool(0.25) { rng.gen_range(1..=2) } else { 0 };
            let gex = if star && rng.gen_bool(0.5) { rng.gen_range(1..=3) } else { 0 };
            let (ok1, gv) = tree(&mut rng, &mut rec, &mut w, 0, gs, gex, false);
            let (ok2, hv) = tree(&mut rng, &mut rec, &mut w, 1, hs, ex, star);
            ok = ok1 && ok2;
            if !ok {
                break;
            }
            let present0 = w.g(0).keys().unwrap_or_default();
            let present1 = w.g(1).keys().unwrap_or_default();
            let lefts: Vec<usize> = gv.iter().copied().filter(|v| present0.contains(v)).collect();
            if lefts.is_empty() || !present1.contains(&hv[0]) {
                continue;
            }
            let left = *lefts.choose(&mut rng).unwrap();
            ok = rec.call(&mut w, HCall { h: 0, call: Call::Merge { src: 1, left, right: hv[0] } });
            // reads (and a few puts) afterwards
            for _ in 0..rng.gen_range(2..10) {
                if !ok {
                    break;
                }
                let pres = w.g(0).keys().unwrap_or_default();
                let Some(v) = pres.choose(&mut rng).copied() else { break };
                let c = if rng.gen_bool(0.8) { Call::Data { v } } else { Call::Put { v, d: datas.choose(&mut rng).unwrap().clone() } };
                ok = rec.call(&mut w, HCall { h: 0, call: c });
            }
        }
        return json!({"t": tid, "profile": o.profile, "n": o.n, "cap": o.cap, "seed": o.seed, "events": rec.events, "panicked": !ok});
    }

    // random part ----------------------------------------------------------------------
    let mut twin_alive = false;
    let mut twin_is_clone = false;
    let mut saved_at: Option<usize> = None;
    let mut pending: std::collections::VecDeque<Call> = std::collections::VecDeque::new();
    while ok && rec.events < o.steps {
        let vw = view(&w, 0);
        let r: f64 = rng.gen();
        let ngroups = vw.group_size.len();
        let call: Option<Call> = if let Some(c) = pending.pop_front() {
            Some(c)
        } else if r > 0.95 && r < 0.97 {
            // a dangling edge (its target was collected): re-create the target and bind the same edge again
            let mut cands = vec![];
            for v1 in &vw.present {
                for (a, t) in w.g(0).kids(*v1).unwrap_or_default() {
                    let tg = vw.tag[v1];
                    let fits = if tg < 2 { ngroups < 14 } else { vw.group_size[&tg] < 16 };
                    if !vw.present.contains(&t) && t < o.cap && fits {
                        cands.push((*v1, a, t));
                    }
                }
            }
            match cands.choose(&mut rng) {
                Some((v1, a, t)) => {
                    pending.push_back(Call::Bind { v1: *v1, v2: *t, a: a.clone() });
                    Some(Call::Add { v: *t })
                }
                None => None,
            }
        } else if profile == "script" && rec.events % 140 < 3 && rec.events > 20 && ngroups < 13 && {
            let sn = w.g(0).snap();
            (sn.next_v..sn.capacity).filter(|i| sn.slots[*i].as_ref().map(|s| s.tag == 0).unwrap_or(false)).count() >= 6
        } {
            // a script that fails AFTER its variables got their ids and formed a group with an unread datum; the group is then
            // read and collected and the allocator asked again: it must not hand those ids out a second time
            let before = vw.present.clone();
            let l = labels.iter().find(|a| a.is_ascii() && !a.contains('-') && !a.starts_with('~') && !a.chars().any(char::is_whitespace)).cloned().unwrap_or_else(|| "foo".to_string());
            let prog = json!([{"c": "ADD", "v": {"k": "var", "name": "a"}}, {"c": "ADD", "v": {"k": "var", "name": "b"}},
                              {"c": "BIND", "v1": {"k": "var", "name": "a"}, "v2": {"k": "var", "name": "b"}, "a": l},
                              {"c": "PUT", "v": {"k": "var", "name": "b"}, "d": "CA-FE"}, {"c": "ADD", "v": {"k": "lit", "id": 0}}]);
            let text = format!("ADD($a); ADD($b);\nBIND($a, $b, {l}); PUT($b, CA-FE);\nXADD(1);");
            ok = rec.call(&mut w, HCall { h: 0, call: Call::Deploy { text, prog, fault_at: 5 } });
            let after = w.g(0).keys().unwrap_or_default();
            let newv: Vec<usize> = after.iter().copied().filter(|v| !before.contains(v)).collect();
            if ok && newv.len() == 2 {
                // the second variable holds the datum: reading it collects both
                for v in &newv {
                    if ok && w.g(0).keys().unwrap_or_default().contains(v) {
                        ok = rec.call(&mut w, HCall { h: 0, call: Call::Data { v: *v } });
                    }
                }
                if ok {
                    ok = rec.call(&mut w, HCall { h: 0, call: Call::NextId });
                }
                if ok {
                    ok = rec.call(&mut w, HCall { h: 0, call: Call::NextId });
                }
            }
            continue;
        } else if (profile == "script" || profile == "world") && r > 0.90 && r < 0.94 && {
            let sn = w.g(0).snap();
            (sn.next_v..sn.capacity).filter(|i| sn.slots[*i].as_ref().map(|s| s.tag == 0).unwrap_or(false)).count() >= 5
        } {
            // a small script over present vertices and fresh variables, in a random legal formatting, sometimes ending in
            // a malformed command (a class that fails before any argument is looked at)
            let mut prog: Vec<Value> = vec![];
            let mut texts: Vec<String> = vec![];
            let mut vars: Vec<String> = vec![];
            let mut nlab: BTreeMap<String, usize> = BTreeMap::new();
            let mut grouped_new = 0usize;
            let nu = rng.gen_bool(0.5);
            let lit = |v: usize, nu: bool| if nu { format!("ν{v}") } else { format!("{v}") };
            let ncmd = rng.gen_range(1..5);
            for _ in 0..ncmd {
                let k = rng.gen_range(0..4);
                if k == 0 || vars.is_empty() && vw.present.is_empty() {
                    let name = format!("v{}", vars.len());
                    vars.push(name.clone());
                    prog.push(json!({"c": "ADD", "v": {"k": "var", "name": name}}));
                    texts.push(format!("ADD(${name})"));
                } else if k == 1 && !vars.is_empty() && !vw.present.is_empty() && ngroups + grouped_new < 13 {
                    // bind a present vertex (if it has room for a label) to a variable, or a variable to a present vertex
                    let var = vars.choose(&mut rng).unwrap().clone();
                    let v = *vw.present.choose(&mut rng).unwrap();
                    let a = labels.iter().take(o.n.max(1)).collect::<Vec<_>>().choose(&mut rng).map(|x| (*x).clone()).unwrap();
                    let a_ok = a.is_ascii() && !a.contains('-') && !a.starts_with('~') && !a.chars().any(char::is_whitespace);
                    let room_v = vw.nlabels[&v].contains(&a) || vw.nlabels[&v].len() < o.n;
                    let gs = vw.tag[&v];
                    let fits = gs < 2 || vw.group_size[&gs] + vars.len() < 15;
                    if !a_ok || !fits {
                        continue;
                    }
                    if rng.gen_bool(0.5) && room_v {
                        prog.push(json!({"c": "BIND", "v1": {"k": "lit", "id": v}, "v2": {"k": "var", "name": var}, "a": a}));
                        texts.push(format!("BIND({}, ${var}, {a})", lit(v, nu)));
                    } else if *nlab.get(&var).unwrap_or(&0) < o.n {
                        *nlab.entry(var.clone()).or_default() += 1;
                        prog.push(json!({"c": "BIND", "v1": {"k": "var", "name": var}, "v2": {"k": "lit", "id": v}, "a": a}));
                        texts.push(format!("BIND(${var},{},{a})", lit(v, !nu)));
                    } else {
                        continue;
                    }
                    grouped_new += 1;
                } else if k == 2 && (!vars.is_empty() || !vw.present.is_empty()) {
                    let d = datas.choose(&mut rng).unwrap().clone();
                    if d == "--" || d.contains('~') {
                        continue;
                    }
                    let dtxt = if rng.gen_bool(0.5) { d.to_lowercase() } else { d.clone() };
                    if !vars.is_empty() && rng.gen_bool(0.6) {
                        let var = vars.choose(&mut rng).unwrap().clone();
                        prog.push(json!({"c": "PUT", "v": {"k": "var", "name": var}, "d": d}));
                        texts.push(format!("PUT(${var}, {dtxt})"));
                    } else if !vw.present.is_empty() {
                        let v = *vw.present.choose(&mut rng).unwrap();
                        prog.push(json!({"c": "PUT", "v": {"k": "lit", "id": v}, "d": d}));
                        texts.push(format!("PUT( {} ,{dtxt} )", lit(v, nu)));
                    }
                } else {
                    let v = idbase + rng.gen_range(0..win);
                    prog.push(json!({"c": "ADD", "v": {"k": "lit", "id": v}}));
                    texts.push(format!("ADD ({})", lit(v, nu)));
                }
            }
            if prog.is_empty() {
                None
            } else {
                let mut fault_at = 0;
                if rng.gen_bool(0.3) {
                    fault_at = prog.len() + 1;
                    prog.push(json!({"c": "ADD", "v": {"k": "lit", "id": 0}}));
                    texts.push(["XADD(1)", "ADD(1", "ADD 1)", "add(1)", "BINDD(1,2,a)"][rng.gen_range(0..5)].to_string());
                }
                let sep = ["; ", ";\n", " ;\t# comment; with ) and $v9\n", ";;\n  "][rng.gen_range(0..4)];
                let mut text = if rng.gen_bool(0.3) { "# header\n".to_string() } else { String::new() };
                for (i, t) in texts.iter().enumerate() {
                    text.push_str(t);
                    if i + 1 < texts.len() || rng.gen_bool(0.7) || fault_at != 0 {
                        text.push_str(sep);
                    }
                }
                Some(Call::Deploy { text, prog: json!(prog), fault_at })
            }
        } else if (profile == "slice" && r > 0.70 || profile == "world" && r > 0.94 && r < 0.955 && !twin_alive) && !vw.present.is_empty() {
            let v = *vw.present.choose(&mut rng).unwrap();
            let ks = w.g(0).kids(v).unwrap_or_default();
            let p = match rng.gen_range(0..7) {
                0 => Pred::All,
                1 => Pred::Nothing,
                2 => Pred::Lt,
                3 => Pred::LabelNe(labels.choose(&mut rng).unwrap().clone()),
                4 => Pred::ToNe(*vw.present.choose(&mut rng).unwrap()),
                _ => {
                    // exclude one existing edge (of v or of a random vertex)
                    let u = if rng.gen_bool(0.5) { v } else { *vw.present.choose(&mut rng).unwrap() };
                    let ku = if u == v { ks.clone() } else { w.g(0).kids(u).unwrap_or_default() };
                    match ku.choose(&mut rng) {
                        Some((a, t)) => Pred::EdgeNe(u, *t, a.clone()),
                        None => Pred::All,
                    }
                }
            };
            Some(Call::Slice { dst: 1, v, p })
        } else if vw.present.len() < 2 || r < 0.16 {
            // add: fresh, present (re-add) or collected ids alike
            let v = if rng.gen_bool(0.25) && !vw.present.is_empty() {
                *vw.present.choose(&mut rng).unwrap()
            } else {
                idbase + rng.gen_range(0..win)
            };
            Some(Call::Add { v })
        } else if r < 0.22 {
            // next_id only while an absent id at or above the allocator position remains
            let sn = w.g(0).snap();
            let room = (sn.next_v..sn.capacity).any(|i| sn.slots[i].as_ref().map(|s| s.tag == 0).unwrap_or(false));
            if room && profile != "slice" && rng.gen_bool(0.35) {
                Some(Call::NextId)
            } else {
                None
            }
        } else if r < 0.50 {
            // bind two present vertices, staying inside the limits as far as the object shows them
            let v1 = *vw.present.choose(&mut rng).unwrap();
            let v2 = *vw.present.choose(&mut rng).unwrap();
            if v1 == v2 {
                None
            } else {
                let t1 = vw.tag[&v1];
                let t2 = vw.tag[&v2];
                let fits = if t1 < 2 && t2 < 2 {
                    ngroups < 14
                } else if t1 < 2 {
                    vw.group_size[&t2] < 16
                } else if t2 < 2 {
                    vw.group_size[&t1] < 16
                } else {
                    true
                };
                // prefer the driver's own record; fall back to what the object shows (copies, composite calls)
                let have = rec.own.get(&(0, v1)).unwrap_or(&vw.nlabels[&v1]);
                let a = if have.len() >= o.n || (rng.gen_bool(0.3) && !have.is_empty()) {
                    have.choose(&mut rng).cloned()
                } else {
                    labels.choose(&mut rng).cloned()
                };
                match (fits, a) {
                    (true, Some(a)) => Some(Call::Bind { v1, v2, a }),
                    _ => None,
                }
            }
        } else if r < 0.72 {
            // put: often before any bind, often over an unread datum
            let v = if rng.gen_bool(0.3) && !vw.unread.is_empty() {
                *vw.unread.choose(&mut rng).unwrap()
            } else {
                *vw.present.choose(&mut rng).unwrap()
            };
            Some(Call::Put { v, d: datas.choose(&mut rng).unwrap().clone() })
        } else if profile == "slice" {
            None
        } else if r < 0.97 || !matches!(profile, "twin" | "world") {
            let v = if rng.gen_bool(0.7) && !vw.unread.is_empty() {
                *vw.unread.choose(&mut rng).unwrap()
            } else {
                *vw.present.choose(&mut rng).unwrap()
            };
            Some(Call::Data { v })
        } else if rng.gen_bool(0.35) {
            // a checkpoint written now and read back LATER (the original has moved on: the file is a snapshot in time)
            match saved_at {
                Some(at) if rec.events >= at + 6 => {
                    saved_at = None;
                    Some(Call::Load { dst: 1 })
                }
                Some(_) => None,
                None => {
                    saved_at = Some(rec.events);
                    Some(Call::Save)
                }
            }
        } else {
            // a twin: clone or save+load into handle 1, then mirrored calls
            twin_is_clone = rng.gen_bool(0.5);
            Some(if twin_is_clone { Call::Clone { dst: 1 } } else { Call::Reload { dst: 1 } })
        };
        let Some(call) = call else { continue };
        if twin_alive && !twin_is_clone && matches!(call, Call::Deploy { .. }) {
            // a reloaded copy allocates from the lowest absent id (the permitted difference): a script with variables would
            // legitimately take other ids there, so the side-by-side comparison ends here
            twin_alive = false;
        }
        if matches!(call, Call::Load { .. }) {
            // the loaded graph is the PAST of the original: no mirroring from here on; it is used on its own for a few calls
            twin_alive = false;
            ok = rec.call(&mut w, HCall { h: 0, call: call.clone() });
            for _ in 0..rng.gen_range(2..6) {
                if !ok || !w.gs.get(1).map(|x| x.is_some()).unwrap_or(false) {
                    break;
                }
                let pres = w.g(1).keys().unwrap_or_default();
                let Some(v) = pres.choose(&mut rng).copied() else { break };
                ok = rec.call(&mut w, HCall { h: 1, call: if rng.gen_bool(0.4) { Call::Put { v, d: datas.choose(&mut rng).unwrap().clone() } } else { Call::Data { v } } });
            }
            continue;
        }
        let mirrored = twin_alive
            && w.gs.get(1).map(|x| x.is_some()).unwrap_or(false)
            && !matches!(call, Call::Clone { .. } | Call::Reload { .. } | Call::Slice { .. } | Call::Save)
            && (twin_is_clone || !matches!(call, Call::NextId));
        ok = rec.call(&mut w, HCall { h: 0, call: call.clone() });
        if matches!(call, Call::Clone { .. } | Call::Reload { .. }) {
            twin_alive = w.gs.get(1).map(|x| x.is_some()).unwrap_or(false);
            continue;
        }
        if ok && matches!(call, Call::Slice { .. }) && rng.gen_bool(0.5) && w.gs.get(1).map(|x| x.is_some()).unwrap_or(false) {
            // use the slice: which of its vertices die together shows in what is alive after put + data
            for _ in 0..rng.gen_range(1..4) {
                let pres = w.g(1).keys().unwrap_or_default();
                let Some(v) = pres.choose(&mut rng).copied() else { break };
                ok = ok && rec.call(&mut w, HCall { h: 1, call: Call::Put { v, d: datas.choose(&mut rng).unwrap().clone() } });
                if rng.gen_bool(0.7) {
                    ok = ok && rec.call(&mut w, HCall { h: 1, call: Call::Data { v } });
                }
            }
            continue;
        }
        if ok && mirrored {
            rec.mirror_next = true;
            ok = rec.call(&mut w, HCall { h: 1, call: call.clone() });
        }
        if ok && matches!(call, Call::NextId) && rng.gen_bool(0.7) {
            // use the id just handed out (the recorder logged it; read it back from the allocator position)
            let Some(id) = rec.last_id else { continue };
            ok = rec.call(&mut w, HCall { h: 0, call: Call::Add { v: id } });
            if ok && twin_alive {
                rec.mirror_next = true;
                ok = rec.call(&mut w, HCall { h: 1, call: Call::Add { v: id } });
            }
        }
        if ok && twin_alive && !twin_is_clone && matches!(call, Call::NextId) {
            // a reloaded graph allocates on its own (not mirrored: its allocator restarted)
            ok = rec.call(&mut w, HCall { h: 1, call: Call::NextId });
        }
    }
    // epilogue: drain and refill (C06 "no matter how many groups have lived and died before"; the model-level statement is
    // Sodg!Recoverable).  Whatever the random history left behind: every group is read out (a datum is put on a member of
    // a group that holds none), which must collect all of them; then as many two-vertex groups as fit (at most 14) are
    // formed from what is left and from re-created ids, given a datum, read and collected again.  Every call is inside the
    // limits; the judge follows it like any other history.
    let mut drained = 0usize;
    let mut refilled = 0usize;
    if ok && !twin_alive && matches!(profile, "mixed" | "groups14" | "big16" | "fan" | "high" | "observe" | "script") {
        let vw = view(&w, 0);
        let mut groups: BTreeMap<usize, Vec<usize>> = BTreeMap::new();
        for (v, t) in &vw.tag {
            if *t >= 2 {
                groups.entry(*t).or_default().push(*v);
            }
        }
        for (_, members) in &groups {
            let mut unread: Vec<usize> = members.iter().copied().filter(|v| vw.unread.contains(v)).collect();
            if unread.is_empty() {
                let v = members[rng.gen_range(0..members.len())];
                ok = ok && rec.call(&mut w, HCall { h: 0, call: Call::Put { v, d: datas[v % datas.len()].clone() } });
                unread.push(v);
            }
            for v in unread {
                ok = ok && rec.call(&mut w, HCall { h: 0, call: Call::Data { v } });
            }
            drained += 1;
        }
        if ok {
            let vw = view(&w, 0);
            let mut pool: Vec<usize> = vw.present.iter().copied().filter(|v| vw.tag.get(v).copied().unwrap_or(0) < 2).collect();
            for i in 0..win {
                let v = idbase + i;
                if !vw.present.contains(&v) && pool.len() < 28 {
                    ok = ok && rec.call(&mut w, HCall { h: 0, call: Call::Add { v } });
                    pool.push(v);
                }
            }
            let k = (pool.len() / 2).min(14);
            let mut carriers = vec![];
            for i in 0..k {
                let (a, b) = if i % 2 == 0 { (pool[2 * i], pool[2 * i + 1]) } else { (pool[2 * i + 1], pool[2 * i]) };
                let have = rec.own.get(&(0, a)).cloned().unwrap_or_else(|| vw.nlabels.get(&a).cloned().unwrap_or_default());
                let lab = if have.len() >= o.n { have[i % have.len()].clone() } else { labels[i % labels.len()].clone() };
                ok = ok && rec.call(&mut w, HCall { h: 0, call: Call::Bind { v1: a, v2: b, a: lab } });
                let c = if i % 3 == 0 { a } else { b };
                ok = ok && rec.call(&mut w, HCall { h: 0, call: Call::Put { v: c, d: datas[(i + 2) % datas.len()].clone() } });
                carriers.push(c);
            }
            for c in carriers {
                ok = ok && rec.call(&mut w, HCall { h: 0, call: Call::Data { v: c } });
                refilled += 1;
            }
        }
    }
    json!({"t": tid, "profile": o.profile, "n": o.n, "cap": o.cap, "seed": o.seed, "events": rec.events, "panicked": !ok, "drained": drained, "refilled": refilled})
}
