//! C14: programs enumerated and rendered by ScriptGen.tla, deployed as text and, independently, applied as API calls.

use crate::exec::{apply_program, Call, HCall, Ret, World};
use crate::model::{diff, project, Abs, Tokens};
use crate::product::{record_trace, Opts};
use serde_json::{json, Value};
use std::collections::BTreeMap;
use std::io::{BufRead, BufReader};
use std::path::PathBuf;

pub fn run(paths: &[PathBuf], o: &Opts, stride: usize, offset: usize) -> Value {
    let tk = Tokens::default();
    let mut vectors = 0usize;
    let mut executed = 0usize;
    let mut by_sig: BTreeMap<String, usize> = BTreeMap::new();
    let mut by_style: BTreeMap<String, usize> = BTreeMap::new();
    let mut by_fault: BTreeMap<String, usize> = BTreeMap::new();
    let mut witnesses: Vec<Value> = vec![];
    let mut wfile = o.witness_out.as_ref().map(|p| std::fs::File::create(p).unwrap());
    let mut samples = vec![];
    let mut tid = 1usize;
    let mut with_vars = 0usize;
    for p in paths {
        let f = std::fs::File::open(p).unwrap();
        for line in BufReader::new(f).lines() {
            let line = line.unwrap();
            let t = line.trim();
            if !t.starts_with("\"{") {
                continue;
            }
            vectors += 1;
            if (vectors - 1) % stride != offset {
                continue;
            }
            let inner: String = serde_json::from_str(t).unwrap();
            let v: Value = serde_json::from_str(&inner).unwrap();
            executed += 1;
            let call0 = HCall::from_json(&json!({"op": "deploy", "h": 0, "text": v["text"], "prog": v["prog"], "fault_at": v["fault_at"]}));
            let (text, prog) = match &call0.call {
                Call::Deploy { text, prog, .. } => (text.clone(), prog.clone()),
                _ => unreachable!(),
            };
            let fault_at = v["fault_at"].as_u64().unwrap() as usize;
            *by_style.entry(v["style"].as_str().unwrap().to_string()).or_default() += 1;
            *by_fault.entry(v["fault"].as_str().unwrap().to_string()).or_default() += 1;
            if text.contains('$') {
                with_vars += 1;
            }
            let n = prog.as_array().unwrap().len();
            let upto = if fault_at == 0 { n } else { fault_at - 1 };
            let mut labels: Vec<String> = vec![];
            for c in prog.as_array().unwrap() {
                if let Some(a) = c.get("a").and_then(|x| x.as_str()) {
                    if !labels.iter().any(|l| l == a) {
                        labels.push(a.to_string());
                    }
                }
            }
            let mut a = World::new(o.n, o.cap, o.scratch.clone());
            a.labels = labels.clone();
            let call = HCall { h: 0, call: Call::Deploy { text: text.clone(), prog: prog.clone(), fault_at } };
            let ret = a.exec(&call);
            let mut b = World::new(o.n, o.cap, o.scratch.clone());
            b.labels = labels.clone();
            let direct = apply_program(b.gs[0].as_mut().unwrap().as_mut(), &prog, upto);
            let mut d: Vec<&str> = vec![];
            match (&ret, fault_at) {
                (Ret::Count(c), 0) if *c == n => {}
                (Ret::Err(_), k) if k > 0 => {}
                (Ret::Panic(_), _) => d.push("panic"),
                _ => d.push("ret"),
            }
            if direct.is_err() {
                d.push("direct-calls-panicked");
            } else if !ret.is_panic() {
                if a.g(0).snap() != b.g(0).snap() {
                    d.push("differs-from-api-calls");
                }
                let post = Abs::from_spec(&v["post"], &tk);
                match project(a.g(0), &labels) {
                    Ok((got, _)) => {
                        let dd = diff(&post, &got);
                        if !dd.none() {
                            d.push("differs-from-model");
                        }
                    }
                    Err(_) => d.push("broken"),
                }
            }
            if !d.is_empty() {
                let sig = format!("script:{}:{}", v["fault"].as_str().unwrap(), d.join("+"));
                *by_sig.entry(sig.clone()).or_default() += 1;
                let seen = witnesses.iter().filter(|x| x["sig"] == json!(sig)).count();
                if seen < o.max_witness_per_sig && witnesses.len() < o.max_witnesses {
                    if let Some(f) = wfile.as_mut() {
                        record_trace(f, tid, o, &labels, &[call.clone()]);
                    }
                    witnesses.push(json!({"t": tid, "sig": sig, "n": o.n, "cap": o.cap, "calls": [call.to_json()]}));
                    tid += 1;
                }
            } else if samples.len() < 3 && executed % 1499 == 3 {
                samples.push(json!({"text": text, "style": v["style"], "fault": v["fault"], "commands": n}));
            }
        }
    }
    json!({"vectors": vectors, "executed": executed, "mismatching": by_sig.values().sum::<usize>(), "by_signature": by_sig,
           "by_style": by_style, "by_fault": by_fault, "with_variables": with_vars, "witnesses": witnesses, "samples": samples, "n": o.n, "cap": o.cap})
}
