//! Calls, their execution on real objects (a small world of handles), and the recorder
//! that turns every executed call into one trace event (the format Trace.tla reads).

use crate::model::{project, Abs};
use crate::real::{bytes_of, empty, hex_text, Pred, G};
use serde_json::{json, Value};
use std::path::PathBuf;

#[derive(Clone, Debug, PartialEq)]
pub enum Call {
    Add { v: usize },
    Bind { v1: usize, v2: usize, a: String },
    Put { v: usize, d: String },
    /// save() to the checkpoint file of this process (read back LATER by Load: the file is a snapshot in time)
    Save,
    /// load() of the checkpoint file into handle dst (the graph type is the one of handle h)
    Load { dst: usize },
    Data { v: usize },
    NextId,
    Clone { dst: usize },
    Reload { dst: usize },
    Slice { dst: usize, v: usize, p: Pred },
    Merge { src: usize, left: usize, right: usize },
    /// text to deploy; `prog` (structured commands) and `fault_at` travel along for the judge
    Deploy { text: String, prog: Value, fault_at: usize },
    New { n: usize, cap: usize },
    /// no call at all: a marker line for the judge ("pair" two handles, "compare" them)
    Mark { what: String, of: usize, kind: String },
}

/// A call addressed to a handle.
#[derive(Clone, Debug, PartialEq)]
pub struct HCall {
    pub h: usize,
    pub call: Call,
}

/// TLA+ source files stay ASCII: %NU% stands for the nu sign, %RHO% for a one-character Greek label, %ALPHA% for the alpha sign
pub fn unplace(s: &str) -> String {
    s.replace("%NU%", "ν").replace("%RHO%", "ρ").replace("%ALPHA%", "α")
}

fn unplace_prog(prog: &Value) -> Value {
    let mut p = prog.clone();
    if let Some(a) = p.as_array_mut() {
        for c in a {
            if let Some(l) = c.get("a").and_then(|x| x.as_str()).map(unplace) {
                c["a"] = json!(l);
            }
        }
    }
    p
}

/// usize::MAX travels as -1 (TLC integers are 32 bit)
fn jid(v: &usize) -> Value {
    if *v == usize::MAX {
        json!(-1)
    } else {
        json!(v)
    }
}

impl HCall {
    pub fn to_json(&self) -> Value {
        let mut o = match &self.call {
            Call::Add { v } => json!({"op":"add","v":jid(v)}),
            Call::Bind { v1, v2, a } => json!({"op":"bind","v1":jid(v1),"v2":jid(v2),"a":a}),
            Call::Put { v, d } => match d.strip_suffix("~v") {
                // the representation asked for is not part of the datum (the judge sees the bytes only)
                Some(b) => json!({"op":"put","v":jid(v),"d":b,"rep":"v"}),
                None => json!({"op":"put","v":jid(v),"d":d}),
            },
            Call::Data { v } => json!({"op":"data","v":jid(v)}),
            Call::NextId => json!({"op":"next_id"}),
            Call::Clone { dst } => json!({"op":"clone","dst":dst}),
            Call::Reload { dst } => json!({"op":"reload","dst":dst}),
            Call::Save => json!({"op":"save"}),
            Call::Load { dst } => json!({"op":"load","dst":dst}),
            Call::Slice { dst, v, p } => json!({"op":"slice","dst":dst,"v":v,"p":p.to_json()}),
            Call::Merge { src, left, right } => json!({"op":"merge","src":src,"left":left,"right":right}),
            Call::Deploy { text, prog, fault_at } => json!({"op":"deploy","text":text,"prog":prog,"fault_at":fault_at}),
            Call::New { n, cap } => json!({"op":"new","n":n,"cap":cap}),
            Call::Mark { what, of, kind } => json!({"op":what,"of":of,"kind":kind}),
        };
        o["h"] = json!(self.h);
        o
    }
    pub fn from_json(v: &Value) -> HCall {
        let u = |k: &str| match v[k].as_i64() {
            Some(x) if x < 0 => usize::MAX,
            Some(x) => x as usize,
            None => panic!("missing {k} in {v}"),
        };
        let s = |k: &str| v[k].as_str().unwrap_or_else(|| panic!("missing {k} in {v}")).to_string();
        let call = match v["op"].as_str().unwrap() {
            "add" => Call::Add { v: u("v") },
            "bind" => Call::Bind { v1: u("v1"), v2: u("v2"), a: s("a") },
            "put" => Call::Put { v: u("v"), d: if v.get("rep").and_then(|x| x.as_str()) == Some("v") { format!("{}~v", s("d")) } else { s("d") } },
            "data" => Call::Data { v: u("v") },
            "next_id" => Call::NextId,
            "clone" => Call::Clone { dst: u("dst") },
            "reload" => Call::Reload { dst: u("dst") },
            "save" => Call::Save,
            "load" => Call::Load { dst: u("dst") },
            "slice" => Call::Slice { dst: u("dst"), v: u("v"), p: Pred::from_json(&v["p"]) },
            "merge" => Call::Merge { src: u("src"), left: u("left"), right: u("right") },
            "deploy" => Call::Deploy { text: unplace(&s("text")), prog: unplace_prog(&v.get("prog").cloned().unwrap_or(json!([]))), fault_at: v.get("fault_at").and_then(|x| x.as_u64()).unwrap_or(0) as usize },
            "new" => Call::New { n: u("n"), cap: u("cap") },
            "pair" | "compare" => Call::Mark { what: s("op"), of: v.get("of").and_then(|x| x.as_u64()).unwrap_or(0) as usize, kind: v.get("kind").and_then(|x| x.as_str()).unwrap_or("").to_string() },
            o => panic!("unknown op {o}"),
        };
        HCall { h: v["h"].as_u64().unwrap_or(0) as usize, call }
    }
}

/// What a call returned.
#[derive(Clone, Debug, PartialEq, Eq)]
pub enum Ret {
    Unit,
    Data(Option<String>),
    Id(usize),
    Ok,
    Count(usize),
    Err(String),
    Panic(String),
}

impl Ret {
    pub fn to_json(&self) -> Value {
        match self {
            Ret::Unit => json!("unit"),
            Ret::Data(None) => json!("none"),
            Ret::Data(Some(s)) => json!(s),
            Ret::Id(i) => json!(i),
            Ret::Ok => json!("ok"),
            Ret::Count(c) => json!(format!("count:{c}")),
            Ret::Err(_) => json!("err"),
            Ret::Panic(_) => json!("panic"),
        }
    }
    pub fn is_panic(&self) -> bool {
        matches!(self, Ret::Panic(_))
    }
}

/// A few graph handles.  Handle 0 is the graph under test; others are clones, reloaded
/// copies, slices and merge sources.
pub struct World {
    pub gs: Vec<Option<Box<dyn G>>>,
    pub n: usize,
    pub cap: usize,
    pub scratch: PathBuf,
    pub labels: Vec<String>,
}

impl World {
    pub fn new(n: usize, cap: usize, scratch: PathBuf) -> World {
        let mut w = World { gs: vec![], n, cap, scratch, labels: vec![] };
        w.gs.push(Some(empty(n, cap).expect("empty() panicked")));
        w
    }
    fn slot(&mut self, h: usize) -> &mut Option<Box<dyn G>> {
        while self.gs.len() <= h {
            self.gs.push(None);
        }
        &mut self.gs[h]
    }
    pub fn g(&self, h: usize) -> &dyn G {
        self.gs[h].as_deref().expect("null handle")
    }
    pub fn note_label(&mut self, a: &str) {
        if !self.labels.iter().any(|l| l == a) {
            self.labels.push(a.to_string());
        }
    }

    /// Execute one call.  Never panics because of the code under test.
    pub fn exec(&mut self, c: &HCall) -> Ret {
        let h = c.h;
        if let Call::New { n, cap } = &c.call {
            return match empty(*n, *cap) {
                Ok(g) => {
                    *self.slot(h) = Some(g);
                    Ret::Unit
                }
                Err(p) => Ret::Panic(p),
            };
        }
        if let Call::Mark { .. } = &c.call {
            return Ret::Unit;
        }
        if self.gs.get(h).map(|x| x.is_none()).unwrap_or(true) {
            panic!("harness: call on a null handle {h}");
        }
        match &c.call {
            Call::Add { v } => wrap(self.gs[h].as_mut().unwrap().add(*v), |_| Ret::Unit),
            Call::Bind { v1, v2, a } => {
                self.note_label(a);
                wrap(self.gs[h].as_mut().unwrap().bind(*v1, *v2, a), |_| Ret::Unit)
            }
            Call::Put { v, d } => {
                let g = self.gs[h].as_mut().unwrap();
                wrap(if crate::real::wants_vector(d) { g.put_vector(*v, &bytes_of(d)) } else { g.put(*v, &bytes_of(d)) }, |_| Ret::Unit)
            }
            Call::Data { v } => {
                wrap(self.gs[h].as_mut().unwrap().data(*v), |r| Ret::Data(r.map(|b| hex_text(&b))))
            }
            Call::NextId => wrap(self.gs[h].as_mut().unwrap().next_id(), Ret::Id),
            Call::Clone { dst } => {
                // a handle that already holds a graph of the same type is refreshed with Clone::clone_from (what
                // `copy.clone_from(&g)` / `copy = g.clone()` of a long-lived copy compile to), a free handle with clone()
                if *dst != h && self.gs.get(*dst).map(|x| x.is_some()).unwrap_or(false) {
                    let mut old = self.slot(*dst).take().unwrap();
                    match self.g(h).dup_into(old.as_mut()) {
                        Ok(true) => {
                            *self.slot(*dst) = Some(old);
                            return Ret::Ok;
                        }
                        Ok(false) => {}
                        Err(p) => return Ret::Panic(p),
                    }
                }
                match self.g(h).dup() {
                    Ok(g) => {
                        *self.slot(*dst) = Some(g);
                        Ret::Ok
                    }
                    Err(p) => Ret::Panic(p),
                }
            }
            Call::Save => {
                let path = self.scratch.join(format!("ckpt-{}.sodg", std::process::id()));
                match self.g(h).save(&path) {
                    Err(p) => Ret::Panic(p),
                    Ok(Err(e)) => Ret::Err(e),
                    Ok(Ok(_)) => Ret::Ok,
                }
            }
            Call::Load { dst } => {
                let path = self.scratch.join(format!("ckpt-{}.sodg", std::process::id()));
                match self.g(h).load_same(&path) {
                    Err(p) => Ret::Panic(p),
                    Ok(Err(e)) => Ret::Err(e),
                    Ok(Ok(g)) => {
                        *self.slot(*dst) = Some(g);
                        Ret::Ok
                    }
                }
            }
            Call::Reload { dst } => {
                // one checkpoint path per process, overwritten by every save() and never removed in between (as a long-lived
                // checkpoint file is): whatever an earlier, possibly longer image left behind is still there when save() runs
                let path = self.scratch.join(format!("img-{}.sodg", std::process::id()));
                let r = match self.g(h).save(&path) {
                    Err(p) => Ret::Panic(p),
                    Ok(Err(e)) => Ret::Err(e),
                    Ok(Ok(_)) => match self.g(h).load_same(&path) {
                        Err(p) => Ret::Panic(p),
                        Ok(Err(e)) => Ret::Err(e),
                        Ok(Ok(g)) => {
                            *self.slot(*dst) = Some(g);
                            Ret::Ok
                        }
                    },
                };
                r
            }
            Call::Slice { dst, v, p } => match self.g(h).slice(*v, p) {
                Err(p) => Ret::Panic(p),
                Ok(Err(e)) => Ret::Err(e),
                Ok(Ok(g)) => {
                    *self.slot(*dst) = Some(g);
                    Ret::Ok
                }
            },
            Call::Merge { src, left, right } => {
                let other = self.gs[*src].take().expect("null merge source");
                let r = match self.gs[h].as_mut().unwrap().merge(other.as_ref(), *left, *right) {
                    Err(p) => Ret::Panic(p),
                    Ok(Err(e)) => Ret::Err(e),
                    Ok(Ok(())) => Ret::Ok,
                };
                self.gs[*src] = Some(other);
                r
            }
            Call::Deploy { text, .. } => match self.gs[h].as_mut().unwrap().deploy(&unplace(text)) {
                Err(p) => Ret::Panic(p),
                Ok(Err(e)) => Ret::Err(e),
                Ok(Ok(c)) => Ret::Count(c),
            },
            Call::New { .. } | Call::Mark { .. } => unreachable!(),
        }
    }

    pub fn project(&self, h: usize) -> Result<Abs, String> {
        project(self.g(h), &self.labels).map(|x| x.0)
    }

    /// One trace event: the call, what it returned, and the state of every handle it
    /// wrote, as observed afterwards.
    pub fn event(&self, t: usize, c: &HCall, ret: &Ret, same: bool) -> Value {
        let mut e = c.to_json();
        e["t"] = json!(t);
        e["ret"] = ret.to_json();
        e["panic"] = json!(ret.is_panic());
        match ret {
            Ret::Err(s) | Ret::Panic(s) => e["msg"] = json!(s),
            _ => {}
        }
        e["same"] = json!(same);
        let mut obs = vec![];
        let mut hs = vec![c.h];
        match &c.call {
            Call::Clone { dst } | Call::Reload { dst } | Call::Load { dst } | Call::Slice { dst, .. } => hs.push(*dst),
            Call::Merge { src, .. } => hs.push(*src),
            _ => {}
        }
        for h in hs {
            if self.gs.get(h).map(|x| x.is_some()).unwrap_or(false) {
                match self.project(h) {
                    Ok(a) => {
                        let mut o = a.to_trace_json();
                        o["h"] = json!(h);
                        obs.push(o);
                    }
                    Err(s) => {
                        obs.push(json!({"h": h, "broken": s}));
                    }
                }
            }
        }
        e["obs"] = json!(obs);
        e
    }
}

fn wrap<T>(r: Result<T, String>, f: impl FnOnce(T) -> Ret) -> Ret {
    match r {
        Ok(x) => f(x),
        Err(p) => Ret::Panic(p),
    }
}


/// Apply a structured program (ScriptGen's commands) through the API: the "same API calls" a script stands for.
/// Each variable is one next_id() result taken at its first mention; a BIND resolves v1 before v2.
pub fn apply_program(g: &mut dyn G, prog: &Value, upto: usize) -> Result<(), String> {
    let mut tab: std::collections::HashMap<String, usize> = std::collections::HashMap::new();
    fn resolve(g: &mut dyn G, tab: &mut std::collections::HashMap<String, usize>, r: &Value) -> Result<usize, String> {
        if r["k"] == "lit" {
            Ok(r["id"].as_u64().unwrap() as usize)
        } else {
            let name = r["name"].as_str().unwrap().to_string();
            if let Some(v) = tab.get(&name) {
                Ok(*v)
            } else {
                let id = g.next_id()?;
                tab.insert(name, id);
                Ok(id)
            }
        }
    }
    for c in prog.as_array().unwrap().iter().take(upto) {
        match c["c"].as_str().unwrap() {
            "ADD" => {
                let v = resolve(g, &mut tab, &c["v"])?;
                g.add(v)?;
            }
            "BIND" => {
                let v1 = resolve(g, &mut tab, &c["v1"])?;
                let v2 = resolve(g, &mut tab, &c["v2"])?;
                g.bind(v1, v2, c["a"].as_str().unwrap())?;
            }
            "PUT" => {
                let v = resolve(g, &mut tab, &c["v"])?;
                g.put(v, &bytes_of(c["d"].as_str().unwrap()))?;
            }
            x => panic!("bad command {x}"),
        }
    }
    Ok(())
}
