//! C09: every strict prefix of every image must be rejected by load().  Images come from the graphs of a
//! bounded instance (one per sampled specification state, built by its shortest call path) and from
//! real-limit graphs (N-label vertices, 20-byte data, 14 groups).  The file is first written with a LARGER
//! image and then overwritten by save(), as a long-lived file would be: whatever is on disk afterwards is
//! what a crash leaves behind, so the cut positions range over the actual file length.

use crate::exec::{Call, HCall, World};
use crate::model::Tokens;
use crate::product::{record_trace, Opts, Ts};
use crate::real::G;
use serde_json::{json, Value};
use std::collections::VecDeque;
use std::io::Write;

fn big_image(o: &Opts) -> Option<Box<dyn G>> {
    // a graph whose image is longer than any image under test with the same N and capacity: every slot holds 40 bytes
    let mut w = World::new(o.n, o.cap, o.scratch.clone());
    for v in 0..o.cap {
        let _ = w.exec(&HCall { h: 0, call: Call::Add { v } });
        let _ = w.exec(&HCall { h: 0, call: Call::Put { v, d: crate::real::hex_text(&[0xAB; 40]) } });
    }
    w.gs[0].take()
}

pub fn run(ts: &Ts, _tk: &Tokens, o: &Opts, max_images: usize, extra: Vec<(Vec<HCall>, Vec<String>)>) -> Value {
    // shortest call path to every specification state
    let mut parent: Vec<Option<(u32, u32)>> = vec![None; ts.states.len()];
    let mut seen = vec![false; ts.states.len()];
    let mut order = vec![];
    let mut q = VecDeque::new();
    seen[ts.init as usize] = true;
    q.push_back(ts.init);
    while let Some(s) = q.pop_front() {
        order.push(s);
        for (e, p) in &ts.out[s as usize] {
            if !seen[*p as usize] {
                seen[*p as usize] = true;
                parent[*p as usize] = Some((s, *e));
                q.push_back(*p);
            }
        }
    }
    let stride = (order.len() / max_images.max(1)).max(1);
    let mut paths: Vec<(Vec<HCall>, Vec<String>)> = vec![];
    for (i, s) in order.iter().enumerate() {
        if i % stride != stride / 2 && i != order.len() - 1 {
            continue;
        }
        let mut p = vec![];
        let mut cur = *s;
        while let Some((par, e)) = parent[cur as usize] {
            p.push(ts.events[e as usize].call.clone());
            cur = par;
        }
        p.reverse();
        paths.push((p, _tk.labels.values().cloned().collect()));
    }
    paths.extend(extra);
    let big = big_image(o);
    let img = o.scratch.join(format!("c09-{}.img", std::process::id()));
    let cut = o.scratch.join(format!("c09-{}.cut", std::process::id()));
    let mut images = 0usize;
    let mut loads = 0usize;
    let mut bytes_total = 0usize;
    let mut distinct = std::collections::HashSet::new();
    let mut failures = 0usize;
    let mut witnesses: Vec<Value> = vec![];
    let mut wfile = o.witness_out.as_ref().map(|p| std::fs::File::create(p).unwrap());
    let mut sizes = vec![];
    let mut samples = vec![];
    let mut tid = 1usize;
    for (path, labels) in &paths {
        let mut w = World::new(o.n, o.cap, o.scratch.clone());
        w.labels = labels.clone();
        let mut ok = true;
        for c in path {
            if w.exec(c).is_panic() {
                ok = false;
                break;
            }
        }
        if !ok {
            continue;
        }
        if let Some(b) = &big {
            let _ = b.save(&img);
        }
        let saved = match w.g(0).save(&img) {
            Ok(Ok(n)) => n,
            _ => continue,
        };
        let Ok(bytes) = std::fs::read(&img) else { continue };
        if !distinct.insert(bytes.clone()) {
            continue;
        }
        images += 1;
        bytes_total += bytes.len();
        sizes.push(bytes.len());
        // the complete file must load
        let full_ok = matches!(w.g(0).load_same(&img), Ok(Ok(_)));
        let mut bad: Option<(usize, &'static str)> = if full_ok { None } else { Some((bytes.len(), "complete-image-rejected")) };
        for k in 0..bytes.len() {
            if bad.is_some() {
                break;
            }
            std::fs::write(&cut, &bytes[..k]).unwrap();
            loads += 1;
            match w.g(0).load_same(&cut) {
                Ok(Err(_)) => {}
                Ok(Ok(_)) => bad = Some((k, "ok")),
                Err(_) => bad = Some((k, "panic")),
            }
        }
        if let Some((k, what)) = bad {
            failures += 1;
            if witnesses.len() < o.max_witnesses {
                let e = json!({"op": "truncload", "t": tid, "h": 0, "k": k, "size": bytes.len(), "written_by_save": saved, "ret": what});
                if let Some(f) = wfile.as_mut() {
                    record_trace(f, tid, o, labels, path);
                    writeln!(f, "{e}").unwrap();
                }
                witnesses.push(json!({"t": tid, "sig": format!("truncload:{what}"), "n": o.n, "cap": o.cap,
                    "calls": path.iter().map(|c| c.to_json()).collect::<Vec<_>>(), "observer_event": e}));
                tid += 1;
            }
        } else if samples.len() < 2 {
            samples.push(json!({"calls": path.iter().map(|c| c.to_json()).collect::<Vec<_>>(), "image_bytes": bytes.len(), "cuts_tried": bytes.len()}));
        }
    }
    let _ = std::fs::remove_file(&img);
    let _ = std::fs::remove_file(&cut);
    sizes.sort_unstable();
    json!({"n": o.n, "cap": o.cap, "images": images, "loads": loads, "bytes_total": bytes_total, "failures": failures,
           "min_image": sizes.first(), "max_image": sizes.last(), "witnesses": witnesses, "samples": samples})
}
