//! The real objects under test, behind one dynamic interface (Sodg<N> for several N),
//! with every call into sodg running under catch_unwind.  A panic is data.

use serde_json::{json, Value};
use sodg::{Hex, Label, Script, Sodg, VerifSnapshot};
use std::any::Any;
use std::panic::{catch_unwind, AssertUnwindSafe};
use std::path::Path;

thread_local! {
    static IN_GUARD: std::cell::Cell<u32> = const { std::cell::Cell::new(0) };
}

/// Panics of the code under test (inside `guarded`) are data and stay silent; a panic of the harness itself is
/// a tool error and is printed.
pub fn quiet_panics() {
    std::panic::set_hook(Box::new(|info| {
        if IN_GUARD.with(|g| g.get()) == 0 {
            eprintln!("harness panic: {info}");
        }
    }));
}

pub fn panic_text(e: Box<dyn Any + Send>) -> String {
    if let Some(s) = e.downcast_ref::<&str>() {
        (*s).to_string()
    } else if let Some(s) = e.downcast_ref::<String>() {
        s.clone()
    } else {
        "panic".to_string()
    }
}

/// Run `f`, turning a panic into Err(text).
pub fn guarded<T>(f: impl FnOnce() -> T) -> Result<T, String> {
    IN_GUARD.with(|g| g.set(g.get() + 1));
    let r = catch_unwind(AssertUnwindSafe(f)).map_err(panic_text);
    IN_GUARD.with(|g| g.set(g.get() - 1));
    r
}

/// A slice predicate, by name (the same finite family the specification uses).
#[derive(Clone, Debug, PartialEq, Eq, Hash)]
pub enum Pred {
    All,
    Nothing,
    LabelNe(String),
    ToNe(usize),
    Lt,
    EdgeNe(usize, usize, String),
}

impl Pred {
    pub fn from_json(v: &Value) -> Pred {
        match v["k"].as_str().unwrap() {
            "all" => Pred::All,
            "none" => Pred::Nothing,
            "label_ne" => Pred::LabelNe(v["a"].as_str().unwrap().to_string()),
            "to_ne" => Pred::ToNe(v["t"].as_u64().unwrap() as usize),
            "lt" => Pred::Lt,
            "edge_ne" => Pred::EdgeNe(
                v["u"].as_u64().unwrap() as usize,
                v["t"].as_u64().unwrap() as usize,
                v["a"].as_str().unwrap().to_string(),
            ),
            k => panic!("unknown predicate {k}"),
        }
    }
    pub fn to_json(&self) -> Value {
        match self {
            Pred::All => json!({"k":"all"}),
            Pred::Nothing => json!({"k":"none"}),
            Pred::LabelNe(a) => json!({"k":"label_ne","a":a}),
            Pred::ToNe(t) => json!({"k":"to_ne","t":t}),
            Pred::Lt => json!({"k":"lt"}),
            Pred::EdgeNe(u, t, a) => json!({"k":"edge_ne","u":u,"t":t,"a":a}),
        }
    }
    pub fn eval(&self, from: usize, to: usize, label: &str) -> bool {
        match self {
            Pred::All => true,
            Pred::Nothing => false,
            Pred::LabelNe(a) => label != a,
            Pred::ToNe(t) => to != *t,
            Pred::Lt => from < to,
            Pred::EdgeNe(u, t, a) => !(from == *u && to == *t && label == a),
        }
    }
}

/// Label <-> text used in traces: the canonical printed form where that is unambiguous, and an explicit
/// form "~g:<char>" / "~s:<chars>" for label VALUES no text denotes (Greek('α'), a Str holding one character,
/// a blank inside, an α prefix).  Labels are constructed directly, never through Label::from_str, which is
/// itself under test in C17.  The mapping is injective in both directions.
pub fn label_of(text: &str) -> Label {
    if let Some(r) = text.strip_prefix("~g:") {
        return Label::Greek(r.chars().next().unwrap());
    }
    if let Some(r) = text.strip_prefix("~s:") {
        let mut a = [' '; 8];
        for (i, c) in r.chars().enumerate() {
            a[i] = c;
        }
        return Label::Str(a);
    }
    let chars: Vec<char> = text.chars().collect();
    if chars[0] == 'α' && chars.len() > 1 && chars[1..].iter().all(|c| c.is_ascii_digit()) {
        let n: usize = chars[1..].iter().collect::<String>().parse().unwrap();
        Label::Alpha(n)
    } else if chars.len() == 1 {
        Label::Greek(chars[0])
    } else {
        let mut a = [' '; 8];
        for (i, c) in chars.iter().enumerate() {
            a[i] = *c;
        }
        Label::Str(a)
    }
}

pub fn label_text(l: &Label) -> String {
    let plain = match l {
        Label::Greek(c) => format!("{c}"),
        Label::Alpha(i) => format!("α{i}"),
        Label::Str(a) => a.iter().collect::<String>().trim_end_matches(' ').to_string(),
    };
    let canonical = !plain.is_empty()
        && !plain.starts_with('~')
        && !plain.contains(' ')
        && match l {
            Label::Greek(c) => *c != 'α',
            Label::Alpha(_) => true,
            Label::Str(_) => plain.chars().count() >= 2 && !plain.starts_with('α'),
        };
    if canonical {
        plain
    } else {
        match l {
            Label::Greek(c) => format!("~g:{c}"),
            Label::Alpha(i) => format!("α{i}"),
            Label::Str(a) => format!("~s:{}", a.iter().collect::<String>().trim_end_matches(' ')),
        }
    }
}

/// Long byte strings travel through traces as the token "~big:<len>:<seed>": `len` bytes, the first eight being the seed
/// (big-endian) and the rest an xorshift stream of it.  hex_text() maps such bytes back to the token (and anything else
/// of that size to "~bigx:<len>:<hash>", which equals no token), so a trace line stays short whatever the size.
pub const BIG_FROM: usize = 1 << 16;
pub fn big_bytes(len: usize, seed: u64) -> Vec<u8> {
    let mut v = Vec::with_capacity(len);
    v.extend_from_slice(&seed.to_be_bytes());
    let mut x = seed | 1;
    while v.len() < len {
        x ^= x << 13;
        x ^= x >> 7;
        x ^= x << 17;
        v.extend_from_slice(&x.to_le_bytes());
    }
    v.truncate(len);
    v
}

pub fn hex_text(b: &[u8]) -> String {
    if b.len() >= BIG_FROM {
        let seed = u64::from_be_bytes(b[0..8].try_into().unwrap());
        if big_bytes(b.len(), seed) == b {
            return format!("~big:{}:{}", b.len(), seed);
        }
        let mut h: u64 = 0xcbf29ce484222325;
        for x in b {
            h = (h ^ u64::from(*x)).wrapping_mul(0x100000001b3);
        }
        return format!("~bigx:{}:{h}", b.len());
    }
    if b.is_empty() {
        "--".to_string()
    } else {
        b.iter().map(|x| format!("{x:02X}")).collect::<Vec<_>>().join("-")
    }
}

/// "<bytes>~v" asks put() for the heap representation Hex::Vector whatever the length (both variants are public)
pub fn wants_vector(text: &str) -> bool {
    text.ends_with("~v")
}

pub fn bytes_of(text: &str) -> Vec<u8> {
    let text = text.strip_suffix("~v").unwrap_or(text);
    if let Some(r) = text.strip_prefix("~big:") {
        let mut it = r.split(':');
        let len: usize = it.next().unwrap().parse().unwrap();
        let seed: u64 = it.next().unwrap().parse().unwrap();
        return big_bytes(len, seed);
    }
    if text == "--" {
        return vec![];
    }
    text.split('-').map(|p| u8::from_str_radix(p, 16).unwrap()).collect()
}

/// Dynamic interface over Sodg<N>.
pub trait G: Any {
    fn n(&self) -> usize;
    fn as_any(&self) -> &dyn Any;
    fn add(&mut self, v: usize) -> Result<(), String>;
    fn bind(&mut self, v1: usize, v2: usize, a: &str) -> Result<(), String>;
    fn put(&mut self, v: usize, d: &[u8]) -> Result<(), String>;
    /// put with the datum held as Hex::Vector whatever its length
    fn put_vector(&mut self, v: usize, d: &[u8]) -> Result<(), String>;
    fn data(&mut self, v: usize) -> Result<Option<Vec<u8>>, String>;
    fn next_id(&mut self) -> Result<usize, String>;
    fn kid(&self, v: usize, a: &str) -> Result<Option<usize>, String>;
    fn kids(&self, v: usize) -> Result<Vec<(String, usize)>, String>;
    fn keys(&self) -> Result<Vec<usize>, String>;
    fn len(&self) -> Result<usize, String>;
    fn is_empty(&self) -> Result<bool, String>;
    fn snap(&self) -> VerifSnapshot;
    fn dup(&self) -> Result<Box<dyn G>, String>;
    /// copy into an EXISTING graph with Clone::clone_from (the other half of the Clone trait); Ok(false): not the same type
    fn dup_into(&self, dst: &mut dyn G) -> Result<bool, String>;
    fn as_any_mut(&mut self) -> &mut dyn Any;
    fn save(&self, p: &Path) -> Result<Result<usize, String>, String>;
    fn load_same(&self, p: &Path) -> Result<Result<Box<dyn G>, String>, String>;
    fn slice(&self, v: usize, p: &Pred) -> Result<Result<Box<dyn G>, String>, String>;
    fn merge(&mut self, h: &dyn G, left: usize, right: usize) -> Result<Result<(), String>, String>;
    fn deploy(&mut self, text: &str) -> Result<Result<usize, String>, String>;
    fn to_xml(&self) -> Result<Result<String, String>, String>;
    fn to_dot(&self) -> Result<String, String>;
    fn inspect(&self, v: usize) -> Result<Result<String, String>, String>;
    fn debug(&self) -> Result<String, String>;
    fn display(&self) -> Result<String, String>;
    fn v_print(&self, v: usize) -> Result<Result<String, String>, String>;
}

pub struct R<const N: usize>(pub Sodg<N>);

impl<const N: usize> G for R<N> {
    fn n(&self) -> usize {
        N
    }
    fn as_any(&self) -> &dyn Any {
        self
    }
    fn add(&mut self, v: usize) -> Result<(), String> {
        guarded(|| self.0.add(v))
    }
    fn bind(&mut self, v1: usize, v2: usize, a: &str) -> Result<(), String> {
        let l = label_of(a);
        guarded(|| self.0.bind(v1, v2, l))
    }
    fn put(&mut self, v: usize, d: &[u8]) -> Result<(), String> {
        // the public constructor, so that the representation is the one a user gets
        let h = Hex::from_slice(d);
        guarded(|| self.0.put(v, &h))
    }
    fn put_vector(&mut self, v: usize, d: &[u8]) -> Result<(), String> {
        let h = Hex::Vector(d.to_vec());
        guarded(|| self.0.put(v, &h))
    }
    fn data(&mut self, v: usize) -> Result<Option<Vec<u8>>, String> {
        guarded(|| self.0.data(v).map(|h| h.bytes().to_vec()))
    }
    fn next_id(&mut self) -> Result<usize, String> {
        guarded(|| self.0.next_id())
    }
    fn kid(&self, v: usize, a: &str) -> Result<Option<usize>, String> {
        let l = label_of(a);
        guarded(|| self.0.kid(v, l))
    }
    fn kids(&self, v: usize) -> Result<Vec<(String, usize)>, String> {
        guarded(|| self.0.kids(v).map(|(a, t)| (label_text(a), *t)).collect())
    }
    fn keys(&self) -> Result<Vec<usize>, String> {
        guarded(|| self.0.keys())
    }
    fn len(&self) -> Result<usize, String> {
        guarded(|| self.0.len())
    }
    fn is_empty(&self) -> Result<bool, String> {
        guarded(|| self.0.is_empty())
    }
    fn snap(&self) -> VerifSnapshot {
        self.0.verif_snapshot()
    }
    fn dup(&self) -> Result<Box<dyn G>, String> {
        guarded(|| Box::new(R::<N>(self.0.clone())) as Box<dyn G>)
    }
    fn dup_into(&self, dst: &mut dyn G) -> Result<bool, String> {
        match dst.as_any_mut().downcast_mut::<R<N>>() {
            Some(d) => guarded(|| {
                d.0.clone_from(&self.0);
                true
            }),
            None => Ok(false),
        }
    }
    fn as_any_mut(&mut self) -> &mut dyn Any {
        self
    }
    fn save(&self, p: &Path) -> Result<Result<usize, String>, String> {
        guarded(|| self.0.save(p).map_err(|e| format!("{e:#}")))
    }
    fn load_same(&self, p: &Path) -> Result<Result<Box<dyn G>, String>, String> {
        guarded(|| {
            Sodg::<N>::load(p)
                .map(|g| Box::new(R::<N>(g)) as Box<dyn G>)
                .map_err(|e| format!("{e:#}"))
        })
    }
    fn slice(&self, v: usize, p: &Pred) -> Result<Result<Box<dyn G>, String>, String> {
        guarded(|| {
            let r = if *p == Pred::All {
                self.0.slice(v)
            } else {
                self.0.slice_some(v, |f, t, a| p.eval(f, t, &label_text(&a)))
            };
            r.map(|g| Box::new(R::<N>(g)) as Box<dyn G>).map_err(|e| format!("{e:#}"))
        })
    }
    fn merge(&mut self, h: &dyn G, left: usize, right: usize) -> Result<Result<(), String>, String> {
        let other = h.as_any().downcast_ref::<R<N>>().expect("merge needs the same N");
        guarded(|| self.0.merge(&other.0, left, right).map_err(|e| format!("{e:#}")))
    }
    fn deploy(&mut self, text: &str) -> Result<Result<usize, String>, String> {
        guarded(|| {
            let mut s = Script::from_str(text);
            s.deploy_to(&mut self.0).map_err(|e| format!("{e:#}"))
        })
    }
    fn to_xml(&self) -> Result<Result<String, String>, String> {
        guarded(|| self.0.to_xml().map_err(|e| format!("{e:#}")))
    }
    fn to_dot(&self) -> Result<String, String> {
        guarded(|| self.0.to_dot())
    }
    fn inspect(&self, v: usize) -> Result<Result<String, String>, String> {
        guarded(|| self.0.inspect(v).map_err(|e| format!("{e:#}")))
    }
    fn debug(&self) -> Result<String, String> {
        guarded(|| format!("{:?}", self.0))
    }
    fn display(&self) -> Result<String, String> {
        guarded(|| format!("{}", self.0))
    }
    fn v_print(&self, v: usize) -> Result<Result<String, String>, String> {
        guarded(|| self.0.v_print(v).map_err(|e| format!("{e:#}")))
    }
}

pub const NS: [usize; 6] = [1, 2, 3, 4, 8, 16];

pub fn empty(n: usize, cap: usize) -> Result<Box<dyn G>, String> {
    guarded(|| -> Box<dyn G> {
        match n {
            1 => Box::new(R::<1>(Sodg::empty(cap))),
            2 => Box::new(R::<2>(Sodg::empty(cap))),
            3 => Box::new(R::<3>(Sodg::empty(cap))),
            4 => Box::new(R::<4>(Sodg::empty(cap))),
            8 => Box::new(R::<8>(Sodg::empty(cap))),
            16 => Box::new(R::<16>(Sodg::empty(cap))),
            _ => panic!("harness: N={n} is not instantiated"),
        }
    })
}

pub fn load(n: usize, p: &Path) -> Result<Result<Box<dyn G>, String>, String> {
    let e = empty(n, 1)?;
    e.load_same(p)
}
