//! C11 / C12: scenarios enumerated by MergeGen.tla (two graphs built by calls, a merge, then reads)
//! executed on the real code and compared with the specification's expected result.

use crate::exec::{Call, HCall, Ret, World};
use crate::model::{diff, Abs, Tokens};
use crate::product::Opts;
use serde_json::{json, Value};
use std::collections::BTreeMap;
use std::io::{BufRead, BufReader};
use std::path::PathBuf;

fn calls_of(v: &Value, h: usize, tk: &Tokens) -> Vec<HCall> {
    v.as_array()
        .unwrap()
        .iter()
        .map(|c| {
            let mut c = c.clone();
            if let Some(a) = c.get("a").and_then(|x| x.as_str()) {
                c["a"] = json!(tk.label(a));
            }
            if let Some(d) = c.get("d").and_then(|x| x.as_str()) {
                c["d"] = json!(tk.val(d));
            }
            c["h"] = json!(h);
            HCall::from_json(&c)
        })
        .collect()
}

pub fn run(paths: &[PathBuf], tk: &Tokens, o: &Opts, stride: usize, offset: usize) -> Value {
    let labels: Vec<String> = tk.labels.values().cloned().collect();
    let mut vectors = 0usize;
    let mut executed = 0usize;
    let mut by_sig: BTreeMap<String, usize> = BTreeMap::new();
    let mut witnesses: Vec<Value> = vec![];
    let mut wfile = o.witness_out.as_ref().map(|p| std::fs::File::create(p).unwrap());
    let mut stats: BTreeMap<&'static str, usize> = BTreeMap::new();
    let mut samples = vec![];
    let mut tid = 1usize;
    for p in paths {
        let f = std::fs::File::open(p).unwrap();
        for line in BufReader::new(f).lines() {
            let line = line.unwrap();
            let t = line.trim();
            if !t.starts_with("\"{") {
                continue;
            }
            vectors += 1;
            if (vectors - 1) % stride != offset {
                continue;
            }
            let inner: String = serde_json::from_str(t).unwrap();
            let v: Value = serde_json::from_str(&inner).unwrap();
            executed += 1;
            let gcalls = calls_of(&v["gcalls"], 0, tk);
            let hcalls = calls_of(&v["hcalls"], 1, tk);
            let left = v["left"].as_u64().unwrap() as usize;
            let right = v["right"].as_u64().unwrap() as usize;
            let mut w = World::new(o.n, o.cap, o.scratch.clone());
            w.labels = labels.clone();
            let mut calls: Vec<HCall> = vec![];
            let mut sig: Option<String> = None;
            let mut mirror_from: Option<usize> = None;
            for c in &gcalls {
                calls.push(c.clone());
                if w.exec(c).is_panic() {
                    sig = Some("prefix:panic".into());
                }
            }
            let newc = HCall { h: 1, call: Call::New { n: o.n, cap: o.cap } };
            calls.push(newc.clone());
            w.exec(&newc);
            for c in &hcalls {
                calls.push(c.clone());
                if w.exec(c).is_panic() {
                    sig = Some("prefix:panic".into());
                }
            }
            if sig.is_none() {
                let pre = Abs::from_spec(&v["pre"], tk);
                let hpre = Abs::from_spec(&v["hpre"], tk);
                match (w.project(0), w.project(1)) {
                    (Ok(a), Ok(b)) => {
                        if !diff(&pre, &a).none() || !diff(&hpre, &b).none() {
                            sig = Some("prefix:differs".into());
                        }
                    }
                    _ => sig = Some("prefix:broken".into()),
                }
            }
            // the twin: a copy of the left graph that will receive, as plain API calls, what the merge amounts to (the model's log)
            if sig.is_none() {
                let cl = HCall { h: 0, call: Call::Clone { dst: 2 } };
                calls.push(cl.clone());
                w.exec(&cl);
                let pr = HCall { h: 2, call: Call::Mark { what: "pair".into(), of: 0, kind: "C11".into() } };
                calls.push(pr);
            }
            let exp_ok = v["ok"].as_bool().unwrap();
            *stats.entry(if exp_ok { "complete" } else { "incomplete" }).or_default() += 1;
            let mc = HCall { h: 0, call: Call::Merge { src: 1, left, right } };
            if sig.is_none() {
                let hsnap = w.g(1).snap();
                calls.push(mc.clone());
                let ret = w.exec(&mc);
                let mut d: Vec<&str> = vec![];
                match (&ret, exp_ok) {
                    (Ret::Ok, true) => {}
                    (Ret::Err(text), false) => {
                        for m in v["missed"].as_array().unwrap() {
                            let id = m.as_u64().unwrap();
                            let tail = text.split("missed:").nth(1).unwrap_or("");
                            let named = tail.split('ν').skip(1).any(|p| {
                                p.chars().take_while(|c| c.is_ascii_digit()).collect::<String>() == id.to_string()
                            });
                            if !named {
                                d.push("missed-not-named");
                                break;
                            }
                        }
                    }
                    (Ret::Panic(_), _) => d.push("panic"),
                    _ => d.push("ret"),
                }
                if !ret.is_panic() {
                    if w.g(1).snap() != hsnap {
                        d.push("right-changed");
                    }
                    let post = Abs::from_spec(&v["post"], tk);
                    match w.project(0) {
                        Ok(a) => {
                            let dd = diff(&post, &a);
                            if !dd.observable.is_empty() {
                                d.push("post");
                            } else if !dd.latent.is_empty() {
                                d.push("post-latent");
                            }
                        }
                        Err(_) => d.push("broken"),
                    }
                }
                // the same additions through add/bind/put/next_id on the twin
                let mut twin_ok = !ret.is_panic() && w.gs.get(2).map(|x| x.is_some()).unwrap_or(false);
                let mut idmap: std::collections::HashMap<u64, usize> = std::collections::HashMap::new();
                let mut api_calls: Vec<HCall> = vec![];
                if twin_ok {
                    for c in v["log"].as_array().unwrap() {
                        let m = |idmap: &std::collections::HashMap<u64, usize>, x: &Value| -> usize { let k = x.as_u64().unwrap(); idmap.get(&k).copied().unwrap_or(k as usize) };
                        let call = match c["op"].as_str().unwrap() {
                            "put" => Call::Put { v: m(&idmap, &c["v"]), d: tk.val(c["d"].as_str().unwrap()) },
                            "add" => Call::Add { v: m(&idmap, &c["v"]) },
                            "bind" => Call::Bind { v1: m(&idmap, &c["v1"]), v2: m(&idmap, &c["v2"]), a: tk.label(c["a"].as_str().unwrap()) },
                            "next_id" => Call::NextId,
                            x => panic!("bad log op {x}"),
                        };
                        let hc = HCall { h: 2, call };
                        api_calls.push(hc.clone());
                        match w.exec(&hc) {
                            Ret::Id(i) => {
                                idmap.insert(c["ret"].as_u64().unwrap(), i);
                            }
                            Ret::Panic(_) => {
                                twin_ok = false;
                                break;
                            }
                            _ => {}
                        }
                    }
                }
                let cmp = HCall { h: 2, call: Call::Mark { what: "compare".into(), of: 0, kind: "C11".into() } };
                if twin_ok && exp_ok && d.is_empty() && w.g(0).snap() != w.g(2).snap() {
                    d.push("differs-from-api-calls");
                }
                if !d.is_empty() {
                    sig = Some(format!("merge:{}", d.join("+")));
                    calls.extend(api_calls.clone());
                    calls.push(cmp.clone());
                    if d.contains(&"differs-from-api-calls") {
                        // hidden state differs: read every vertex on both, side by side, so that it shows (or does not)
                        if let Some(order) = v["reads"].as_array().and_then(|a| a.first()) {
                            for step in order.as_array().unwrap() {
                                let vtx = step["v"].as_u64().unwrap() as usize;
                                calls.push(HCall { h: 0, call: Call::Data { v: vtx } });
                                calls.push(HCall { h: 2, call: Call::Data { v: vtx } });
                                mirror_from.get_or_insert(calls.len());
                            }
                        }
                    }
                } else if exp_ok {
                    // reads afterwards, both orders, each on a rebuilt copy
                    for (ri, order) in v["reads"].as_array().unwrap().iter().enumerate() {
                        let mut w2 = World::new(o.n, o.cap, o.scratch.clone());
                        w2.labels = labels.clone();
                        for c in calls.iter().chain(api_calls.iter()) {
                            w2.exec(c);
                        }
                        let mut rcalls = vec![];
                        let mut bad = false;
                        for step in order.as_array().unwrap() {
                            let vtx = step["v"].as_u64().unwrap() as usize;
                            let c = HCall { h: 0, call: Call::Data { v: vtx } };
                            rcalls.push(c.clone());
                            let r = w2.exec(&c);
                            let want_ret = step["ret"].as_str().unwrap();
                            let ret_ok = match &r {
                                Ret::Data(None) => want_ret == "none",
                                Ret::Data(Some(s)) => want_ret != "none" && *s == tk.val(want_ret),
                                _ => false,
                            };
                            let mut want_alive: Vec<usize> =
                                step["alive"].as_array().unwrap().iter().map(|x| x.as_u64().unwrap() as usize).collect();
                            want_alive.sort_unstable();
                            let alive_ok = w2.g(0).keys().map(|k| k == want_alive).unwrap_or(false);
                            if !ret_ok || !alive_ok {
                                bad = true;
                                break;
                            }
                            *stats.entry("reads").or_default() += 1;
                        }
                        if bad {
                            sig = Some(format!("reads:{ri}"));
                            calls.extend(api_calls.clone());
                            calls.push(cmp.clone());
                            // the reads side by side: merged graph, then (mirrored) the twin
                            for c in rcalls {
                                calls.push(c.clone());
                                let mut c2 = c.clone();
                                c2.h = 2;
                                calls.push(c2);
                                mirror_from.get_or_insert(calls.len());
                            }
                            break;
                        }
                    }
                }
            } else {
                calls.push(mc.clone());
            }
            if let Some(sig) = sig {
                *by_sig.entry(sig.clone()).or_default() += 1;
                let seen = witnesses.iter().filter(|x| x["sig"] == json!(sig)).count();
                if seen < o.max_witness_per_sig && witnesses.len() < o.max_witnesses {
                    if let Some(f) = wfile.as_mut() {
                        // every second call from `mirror_from` on is the twin's mirrored read
                        let mirror: Vec<bool> = (0..calls.len()).map(|i| mirror_from.map(|m| i + 1 >= m && (i + 1 - m) % 2 == 0).unwrap_or(false)).collect();
                        crate::product::record_trace_m(f, tid, o, &labels, &calls, &mirror);
                    }
                    let mirror: Vec<bool> = (0..calls.len()).map(|i| mirror_from.map(|m| i + 1 >= m && (i + 1 - m) % 2 == 0).unwrap_or(false)).collect();
                    witnesses.push(json!({"t": tid, "sig": sig, "n": o.n, "cap": o.cap,
                        "calls": calls.iter().zip(mirror.iter()).map(|(c, m)| { let mut j = c.to_json(); if *m { j["mirror"] = json!(true); } j }).collect::<Vec<_>>()}));
                    tid += 1;
                }
            } else if samples.len() < 2 && executed % 977 == 1 {
                samples.push(json!({"calls": calls.iter().map(|c| c.to_json()).collect::<Vec<_>>(), "expected_ok": exp_ok}));
            }
        }
    }
    json!({"vectors": vectors, "executed": executed, "mismatching": by_sig.values().sum::<usize>(), "by_signature": by_sig,
           "stats": stats, "witnesses": witnesses, "samples": samples, "n": o.n, "cap": o.cap})
}
