mod exec;
mod model;
mod observers;
mod product;
mod real;

use serde_json::{json, Value};
use std::collections::HashMap;
use std::path::PathBuf;

fn args_map() -> (String, HashMap<String, Vec<String>>) {
    let mut it = std::env::args().skip(1);
    let cmd = it.next().unwrap_or_else(|| "help".to_string());
    let mut m: HashMap<String, Vec<String>> = HashMap::new();
    let mut key: Option<String> = None;
    for a in it {
        if let Some(k) = a.strip_prefix("--") {
            key = Some(k.to_string());
            m.entry(k.to_string()).or_default();
        } else if let Some(k) = &key {
            m.get_mut(k).unwrap().push(a);
        }
    }
    (cmd, m)
}

fn one<'a>(m: &'a HashMap<String, Vec<String>>, k: &str) -> Option<&'a str> {
    m.get(k).and_then(|v| v.first()).map(|s| s.as_str())
}

fn main() {
    real::quiet_panics();
    let (cmd, m) = args_map();
    let code = match cmd.as_str() {
        "product" => cmd_product(&m),
        _ => {
            eprintln!("usage: sodg-verif-harness <product|...> [--key value ...]");
            2
        }
    };
    std::process::exit(code);
}

fn cmd_product(m: &HashMap<String, Vec<String>>) -> i32 {
    let ts_paths: Vec<PathBuf> = m.get("ts").expect("--ts").iter().map(PathBuf::from).collect();
    let tokens_json: Value = serde_json::from_str(one(m, "tokens").expect("--tokens")).expect("tokens json");
    let tk = model::Tokens::from_json(&tokens_json);
    let scratch = PathBuf::from(one(m, "scratch").unwrap_or("."));
    let o = product::Opts {
        n: one(m, "n").unwrap_or("2").parse().unwrap(),
        cap: one(m, "cap").unwrap_or("3").parse().unwrap(),
        budget: one(m, "budget").unwrap_or("3000000").parse().unwrap(),
        scratch,
        observers: m.get("observers").cloned().unwrap_or_default(),
        witness_out: one(m, "witness-out").map(PathBuf::from),
        max_witness_per_sig: one(m, "per-sig").unwrap_or("2").parse().unwrap(),
        max_witnesses: one(m, "max-witnesses").unwrap_or("40").parse().unwrap(),
        tokens_json: tokens_json.clone(),
    };
    let t0 = std::time::Instant::now();
    let ts = product::load_ts(&ts_paths, &tk);
    let load_s = t0.elapsed().as_secs_f64();
    let s = product::run(&ts, &tk, &o);
    let mut j = product::summary_json(&ts, &o, &s);
    j["load_s"] = json!(load_s);
    j["wall_s"] = json!(t0.elapsed().as_secs_f64());
    let out = serde_json::to_string(&j).unwrap();
    if let Some(p) = one(m, "out") {
        std::fs::write(p, &out).unwrap();
    } else {
        println!("{out}");
    }
    0
}
