mod drive;
mod exec;
mod hexvec;
mod labelvec;
mod mergevec;
mod model;
mod observers;
mod product;
mod real;
mod scriptvec;
mod truncate;

use serde_json::{json, Value};
use std::collections::HashMap;
use std::path::PathBuf;

fn args_map() -> (String, HashMap<String, Vec<String>>) {
    let mut it = std::env::args().skip(1);
    let cmd = it.next().unwrap_or_else(|| "help".to_string());
    let mut m: HashMap<String, Vec<String>> = HashMap::new();
    let mut key: Option<String> = None;
    for a in it {
        if let Some(k) = a.strip_prefix("--") {
            key = Some(k.to_string());
            m.entry(k.to_string()).or_default();
        } else if let Some(k) = &key {
            m.get_mut(k).unwrap().push(a);
        }
    }
    (cmd, m)
}

fn one<'a>(m: &'a HashMap<String, Vec<String>>, k: &str) -> Option<&'a str> {
    m.get(k).and_then(|v| v.first()).map(|s| s.as_str())
}

fn main() {
    real::quiet_panics();
    let (cmd, m) = args_map();
    let code = match cmd.as_str() {
        "product" => cmd_product(&m),
        "drive" => cmd_drive(&m),
        "record" => cmd_record(&m),
        "merge" => cmd_merge(&m),
        "truncate" => cmd_truncate(&m),
        "scriptvec" => cmd_script(&m),
        "labelvec" => {
            let paths: Vec<PathBuf> = m.get("vectors").expect("--vectors").iter().map(PathBuf::from).collect();
            let j = labelvec::run(&paths, &PathBuf::from(one(&m, "obs-out").expect("--obs-out")));
            println!("{j}");
            0
        }
        "hexvec" => {
            let paths: Vec<PathBuf> = m.get("vectors").expect("--vectors").iter().map(PathBuf::from).collect();
            let j = hexvec::run(&paths, &PathBuf::from(one(&m, "obs-out").expect("--obs-out")));
            println!("{j}");
            0
        }
        _ => {
            eprintln!("usage: sodg-verif-harness <product|...> [--key value ...]");
            2
        }
    };
    std::process::exit(code);
}

fn cmd_product(m: &HashMap<String, Vec<String>>) -> i32 {
    let ts_paths: Vec<PathBuf> = m.get("ts").expect("--ts").iter().map(PathBuf::from).collect();
    let tokens_json: Value = serde_json::from_str(one(m, "tokens").expect("--tokens")).expect("tokens json");
    let tk = model::Tokens::from_json(&tokens_json);
    let scratch = PathBuf::from(one(m, "scratch").unwrap_or("."));
    let o = product::Opts {
        n: one(m, "n").unwrap_or("2").parse().unwrap(),
        cap: one(m, "cap").unwrap_or("3").parse().unwrap(),
        budget: one(m, "budget").unwrap_or("3000000").parse().unwrap(),
        scratch,
        observers: m.get("observers").cloned().unwrap_or_default(),
        witness_out: one(m, "witness-out").map(PathBuf::from),
        max_witness_per_sig: one(m, "per-sig").unwrap_or("2").parse().unwrap(),
        max_witnesses: one(m, "max-witnesses").unwrap_or("40").parse().unwrap(),
        tokens_json: tokens_json.clone(),
    };
    let t0 = std::time::Instant::now();
    let ts = product::load_ts(&ts_paths, &tk);
    let load_s = t0.elapsed().as_secs_f64();
    let s = product::run(&ts, &tk, &o);
    let mut j = product::summary_json(&ts, &o, &s);
    j["load_s"] = json!(load_s);
    j["wall_s"] = json!(t0.elapsed().as_secs_f64());
    let out = serde_json::to_string(&j).unwrap();
    if let Some(p) = one(m, "out") {
        std::fs::write(p, &out).unwrap();
    } else {
        println!("{out}");
    }
    0
}

/// drive --out FILE --plan JSON   where plan = [{"profile":..,"n":..,"cap":..,"steps":..,"seed":..,"window":..}, ...]
fn cmd_drive(m: &HashMap<String, Vec<String>>) -> i32 {
    let plan: Value = serde_json::from_str(one(m, "plan").expect("--plan")).expect("plan json");
    let scratch = PathBuf::from(one(m, "scratch").unwrap_or("."));
    let shapes: Vec<Vec<Value>> = match one(m, "shapes") {
        Some(p) => serde_json::from_str(&std::fs::read_to_string(p).unwrap()).unwrap(),
        None => vec![],
    };
    let out_path = one(m, "out").expect("--out");
    let mut out = std::io::BufWriter::new(std::fs::File::create(out_path).unwrap());
    let mut metas = vec![];
    let mut tid = one(m, "first-tid").unwrap_or("1").parse::<usize>().unwrap();
    for p in plan.as_array().unwrap() {
        let o = drive::DriveOpts {
            n: p["n"].as_u64().unwrap() as usize,
            cap: p["cap"].as_u64().unwrap() as usize,
            steps: p["steps"].as_u64().unwrap() as usize,
            seed: p["seed"].as_u64().unwrap(),
            profile: p["profile"].as_str().unwrap().to_string(),
            window: p["window"].as_u64().unwrap_or(32) as usize,
            scratch: scratch.clone(),
            shapes: shapes.clone(),
            reps: p["reps"].as_u64().map(|x| x as usize),
            observe: p["observe"].as_u64().map(|x| x as usize).unwrap_or(0),
            odd: p["odd"].as_u64().unwrap_or(0) as usize,
            progress: one(m, "progress").map(PathBuf::from),
        };
        metas.push(drive::run(&o, &mut out, tid));
        tid += 1;
    }
    use std::io::Write;
    writeln!(out, "{}", json!({"op":"end","t":0,"h":0})).unwrap();
    println!("{}", json!(metas));
    0
}

/// record --calls FILE --out TRACE : re-execute {n, cap, calls:[...]} (or a list of those) with the recorder on
fn cmd_record(m: &HashMap<String, Vec<String>>) -> i32 {
    let v: Value = serde_json::from_str(&std::fs::read_to_string(one(m, "calls").expect("--calls")).unwrap()).unwrap();
    let scratch = PathBuf::from(one(m, "scratch").unwrap_or("."));
    let mut out = std::io::BufWriter::new(std::fs::File::create(one(m, "out").expect("--out")).unwrap());
    let list = if v.is_array() { v.as_array().unwrap().clone() } else { vec![v] };
    for (i, w) in list.iter().enumerate() {
        let o = product::Opts {
            n: w["n"].as_u64().unwrap() as usize,
            cap: w["cap"].as_u64().unwrap() as usize,
            budget: 0,
            scratch: scratch.clone(),
            observers: vec![],
            witness_out: None,
            max_witness_per_sig: 0,
            max_witnesses: 0,
            tokens_json: json!({}),
        };
        let calls: Vec<exec::HCall> = w["calls"].as_array().unwrap().iter().map(exec::HCall::from_json).collect();
        let mut labels: Vec<String> = vec![];
        for c in &calls {
            if let exec::Call::Bind { a, .. } = &c.call {
                if !labels.contains(a) {
                    labels.push(a.clone());
                }
            }
        }
        let tid = w["t"].as_u64().unwrap_or(i as u64 + 1) as usize;
        let mirror: Vec<bool> = w["calls"].as_array().unwrap().iter().map(|c| c.get("mirror").and_then(|x| x.as_bool()).unwrap_or(false)).collect();
        product::record_trace_m(&mut out, tid, &o, &labels, &calls, &mirror);
        if let Some(then) = w.get("then") {
            // a read-only post-operation on the graph the calls built: observers, or a truncated load
            let mut world = exec::World::new(o.n, o.cap, o.scratch.clone());
            world.labels = labels.clone();
            for c in &calls {
                let _ = world.exec(c);
            }
            match then["op"].as_str().unwrap_or("") {
                "observe" => {
                    let what: Vec<String> = then["what"].as_array().map(|a| a.iter().map(|x| x.as_str().unwrap().to_string()).collect()).unwrap_or_default();
                    observers::observe_all(&world, 0, tid, &what, &mut out);
                }
                "truncload" => {
                    use std::io::Write;
                    let img = o.scratch.join(format!("replay-{}.img", std::process::id()));
                    let cut = o.scratch.join(format!("replay-{}.cut", std::process::id()));
                    let mut big = exec::World::new(o.n, o.cap, o.scratch.clone());
                    for v in 0..o.cap {
                        let _ = big.exec(&exec::HCall { h: 0, call: exec::Call::Add { v } });
                        let _ = big.exec(&exec::HCall { h: 0, call: exec::Call::Put { v, d: real::hex_text(&[0xAB; 40]) } });
                    }
                    let _ = big.g(0).save(&img);
                    let _ = world.g(0).save(&img);
                    let bytes = std::fs::read(&img).unwrap_or_default();
                    let ks: Vec<usize> = match then.get("k").and_then(|x| x.as_u64()) {
                        Some(k) => vec![k as usize],
                        None => (0..bytes.len()).collect(),
                    };
                    for k in ks {
                        if k > bytes.len() {
                            continue;
                        }
                        std::fs::write(&cut, &bytes[..k.min(bytes.len())]).unwrap();
                        let ret = match world.g(0).load_same(&cut) {
                            Ok(Err(_)) => "err",
                            Ok(Ok(_)) => "ok",
                            Err(_) => "panic",
                        };
                        if ret != "err" || then.get("k").is_some() {
                            writeln!(out, "{}", json!({"op": "truncload", "t": tid, "h": 0, "k": k, "size": bytes.len(), "ret": ret})).unwrap();
                        }
                    }
                    let _ = std::fs::remove_file(&img);
                    let _ = std::fs::remove_file(&cut);
                }
                _ => {}
            }
        }
    }
    use std::io::Write;
    writeln!(out, "{}", json!({"op":"end","t":0,"h":0})).unwrap();
    0
}

fn cmd_merge(m: &HashMap<String, Vec<String>>) -> i32 {
    let paths: Vec<PathBuf> = m.get("vectors").expect("--vectors").iter().map(PathBuf::from).collect();
    let tokens_json: Value = serde_json::from_str(one(m, "tokens").expect("--tokens")).expect("tokens json");
    let tk = model::Tokens::from_json(&tokens_json);
    let o = product::Opts {
        n: one(m, "n").unwrap_or("2").parse().unwrap(),
        cap: one(m, "cap").unwrap_or("6").parse().unwrap(),
        budget: 0,
        scratch: PathBuf::from(one(m, "scratch").unwrap_or(".")),
        observers: vec![],
        witness_out: one(m, "witness-out").map(PathBuf::from),
        max_witness_per_sig: one(m, "per-sig").unwrap_or("3").parse().unwrap(),
        max_witnesses: one(m, "max-witnesses").unwrap_or("40").parse().unwrap(),
        tokens_json: tokens_json.clone(),
    };
    let stride: usize = one(m, "stride").unwrap_or("1").parse().unwrap();
    let offset: usize = one(m, "offset").unwrap_or("0").parse().unwrap();
    let t0 = std::time::Instant::now();
    let mut j = mergevec::run(&paths, &tk, &o, stride, offset);
    j["wall_s"] = json!(t0.elapsed().as_secs_f64());
    let out = serde_json::to_string(&j).unwrap();
    if let Some(p) = one(m, "out") {
        std::fs::write(p, &out).unwrap();
    } else {
        println!("{out}");
    }
    0
}

fn cmd_script(m: &HashMap<String, Vec<String>>) -> i32 {
    let paths: Vec<PathBuf> = m.get("vectors").expect("--vectors").iter().map(PathBuf::from).collect();
    let o = product::Opts {
        n: one(m, "n").unwrap_or("2").parse().unwrap(),
        cap: one(m, "cap").unwrap_or("5").parse().unwrap(),
        budget: 0,
        scratch: PathBuf::from(one(m, "scratch").unwrap_or(".")),
        observers: vec![],
        witness_out: one(m, "witness-out").map(PathBuf::from),
        max_witness_per_sig: one(m, "per-sig").unwrap_or("2").parse().unwrap(),
        max_witnesses: one(m, "max-witnesses").unwrap_or("40").parse().unwrap(),
        tokens_json: json!({}),
    };
    let stride: usize = one(m, "stride").unwrap_or("1").parse().unwrap();
    let offset: usize = one(m, "offset").unwrap_or("0").parse().unwrap();
    let t0 = std::time::Instant::now();
    let mut j = scriptvec::run(&paths, &o, stride, offset);
    j["wall_s"] = json!(t0.elapsed().as_secs_f64());
    let out = serde_json::to_string(&j).unwrap();
    if let Some(p) = one(m, "out") {
        std::fs::write(p, &out).unwrap();
    } else {
        println!("{out}");
    }
    0
}

fn cmd_truncate(m: &HashMap<String, Vec<String>>) -> i32 {
    let ts_paths: Vec<PathBuf> = m.get("ts").expect("--ts").iter().map(PathBuf::from).collect();
    let tokens_json: Value = serde_json::from_str(one(m, "tokens").expect("--tokens")).expect("tokens json");
    let tk = model::Tokens::from_json(&tokens_json);
    let o = product::Opts {
        n: one(m, "n").unwrap_or("2").parse().unwrap(),
        cap: one(m, "cap").unwrap_or("3").parse().unwrap(),
        budget: 0,
        scratch: PathBuf::from(one(m, "scratch").unwrap_or(".")),
        observers: vec![],
        witness_out: one(m, "witness-out").map(PathBuf::from),
        max_witness_per_sig: 3,
        max_witnesses: one(m, "max-witnesses").unwrap_or("6").parse().unwrap(),
        tokens_json: tokens_json.clone(),
    };
    let ts = product::load_ts(&ts_paths, &tk);
    // real-limit graphs: call lists extracted from recorded traces (--extra FILE: JSON list of {calls:[...]})
    let mut extra = vec![];
    if let Some(p) = one(m, "extra") {
        let v: Value = serde_json::from_str(&std::fs::read_to_string(p).unwrap()).unwrap();
        for w in v.as_array().unwrap() {
            let calls: Vec<exec::HCall> = w["calls"].as_array().unwrap().iter().map(exec::HCall::from_json).collect();
            let mut labels: Vec<String> = vec![];
            for c in &calls {
                if let exec::Call::Bind { a, .. } = &c.call {
                    if !labels.contains(a) {
                        labels.push(a.clone());
                    }
                }
            }
            extra.push((calls, labels));
        }
    }
    let j = truncate::run(&ts, &tk, &o, one(m, "max-images").unwrap_or("150").parse().unwrap(), extra);
    let out = serde_json::to_string(&j).unwrap();
    if let Some(p) = one(m, "out") {
        std::fs::write(p, &out).unwrap();
    } else {
        println!("{out}");
    }
    0
}
