//! C15 / C16: vectors enumerated by HexGen.tla, run against the real Hex in every representation.

use crate::real::guarded;
use serde_json::{json, Value};
use sodg::Hex;
use std::collections::BTreeMap;
use std::io::{BufRead, BufReader, Write};
use std::path::PathBuf;
use std::str::FromStr;

fn u(i: i64) -> usize {
    if i < 0 {
        usize::MAX
    } else {
        i as usize
    }
}

fn bytes_of(v: &Value) -> Vec<u8> {
    v.as_array().map(|a| a.iter().map(|x| x.as_u64().unwrap() as u8).collect()).unwrap_or_default()
}

/// the four ways the same byte string can be held (None when the representation does not exist)
pub fn reps(b: &[u8]) -> Vec<(&'static str, Hex)> {
    let mut v = vec![("from_slice", Hex::from_slice(b)), ("from_vec", Hex::from_vec(b.to_vec())), ("Vector", Hex::Vector(b.to_vec()))];
    if b.len() <= 8 {
        let mut a = [0xEEu8; 8];
        a[..b.len()].copy_from_slice(b);
        v.push(("Bytes+junk", Hex::Bytes(a, b.len())));
    }
    v
}

fn raw_of(h: &Hex) -> (bool, Vec<u8>) {
    match h {
        Hex::Bytes(a, _) => (true, a.to_vec()),
        Hex::Vector(_) => (false, vec![]),
    }
}

fn bytes_json(b: &[u8]) -> Value {
    json!({"k": "bytes", "v": b})
}

fn slice_res(r: Result<Vec<u8>, String>) -> Value {
    match r {
        Ok(b) => bytes_json(&b),
        Err(_) => json!({"k": "panic"}),
    }
}

/// run one op on one representation
/// a..=b iterated to its end: the value carries the hidden "exhausted" state, and as an index it denotes the EMPTY
/// slice at b+1 (Hex.tla RangeInclSpent).  Only for short ranges (it is iterated).
fn spent(a: usize, b: usize) -> std::ops::RangeInclusive<usize> {
    let mut r = a..=b;
    if b < 100_000 {
        for _ in r.by_ref() {}
    }
    r
}

/// A Hex RETURNED by an operation (tail, concat, an indexed write, a parse) is a Hex like any other: it equals the
/// canonical value of its bytes in both directions, equals its own clone, and prints / measures as its bytes do.  Returns the
/// bytes as the observation, marked "derived_inconsistent" when the value does not behave like its byte string.
fn derived(x: &Hex) -> Value {
    let b = x.bytes().to_vec();
    let canon = Hex::from_slice(&b);
    let heap = Hex::Vector(b.clone());
    let okay = *x == canon && canon == *x && *x == heap && heap == *x && *x == x.clone() && x.len() == b.len() && x.print() == canon.print() && x.to_vec() == b;
    if okay {
        bytes_json(&b)
    } else {
        json!({"k": "bytes", "v": b, "derived_inconsistent": true})
    }
}

fn run_op(op: &str, h: &Hex, a: usize, b: usize, b_raw: i64, other: &[u8]) -> Value {
    match op {
        "len" => {
            let l = h.len();
            if h.bytes().len() != l {
                return json!({"k": "int", "v": -7});
            }
            json!({"k": "int", "v": l})
        }
        "print" => {
            let p = h.print();
            if format!("{h}") != p || format!("{h:?}") != p {
                return json!({"k": "str", "v": format!("print/Display/Debug disagree: {p}")});
            }
            json!({"k": "str", "v": p})
        }
        "roundtrip" => match Hex::from_str(&h.print()) {
            Ok(x) => {
                if x != *h || *h != x {
                    json!({"k": "bytes", "v": x.bytes(), "unequal": true})
                } else {
                    bytes_json(x.bytes())
                }
            }
            Err(_) => json!({"k": "err"}),
        },
        "to_vec" => {
            let v = h.to_vec();
            if v != h.bytes() {
                return json!({"k": "bytes", "v": v, "bytes_differs": true});
            }
            bytes_json(&v)
        }
        "full" => slice_res(guarded(|| h[..].to_vec())),
        "to_i64" => match h.to_i64() {
            Ok(v) => {
                let back = Hex::from(v);
                if back.bytes() != v.to_be_bytes() {
                    return json!({"k": "be8", "v": back.bytes(), "from_not_inverse": true});
                }
                json!({"k": "be8", "v": v.to_be_bytes()})
            }
            Err(_) => json!({"k": "err"}),
        },
        "to_f64" => match h.to_f64() {
            Ok(v) => {
                let back = Hex::from(v);
                if back.bytes() != v.to_be_bytes() {
                    return json!({"k": "be8", "v": back.bytes(), "from_not_inverse": true});
                }
                json!({"k": "be8", "v": v.to_be_bytes()})
            }
            Err(_) => json!({"k": "err"}),
        },
        "to_bool" => match guarded(|| h.to_bool()) {
            Ok(x) => json!({"k": "bool", "v": x}),
            Err(_) => json!({"k": "panic"}),
        },
        "is_empty" => json!({"k": "bool", "v": h.is_empty()}),
        "index" => match guarded(|| h[a]) {
            Ok(x) => json!({"k": "byte", "v": x}),
            Err(_) => json!({"k": "panic"}),
        },
        "byte_at" => match guarded(|| h.byte_at(a)) {
            Ok(x) => json!({"k": "byte", "v": x}),
            Err(_) => json!({"k": "panic"}),
        },
        "tail" => match guarded(|| h.tail(a)) {
            Ok(t) => derived(&t),
            Err(_) => json!({"k": "panic"}),
        },
        "from" => slice_res(guarded(|| h[a..].to_vec())),
        "to" => slice_res(guarded(|| h[..a].to_vec())),
        "to_incl" => slice_res(guarded(|| h[..=a].to_vec())),
        "range" => slice_res(guarded(|| h[a..b].to_vec())),
        "incl" => slice_res(guarded(|| h[a..=b].to_vec())),
        "incl_spent" => slice_res(guarded(|| h[spent(a, b)].to_vec())),
        "set" => {
            let mut h2 = h.clone();
            match guarded(|| {
                h2[a] = b_raw as u8;
            }) {
                Ok(()) => derived(&h2),
                Err(_) => json!({"k": "panic"}),
            }
        }
        "eq" => {
            let mut all = true;
            let mut any = false;
            for (_, o) in reps(other) {
                let e = *h == o && o == *h;
                all &= e;
                any |= e;
            }
            if all != any {
                json!({"k": "bool-depends-on-representation"})
            } else {
                json!({"k": "bool", "v": all})
            }
        }
        _ => json!({"k": "unknown-op"}),
    }
}

/// what std does for the same access on the plain byte slice (guards my transcription in Hex.tla)
fn std_op(op: &str, s: &[u8], a: usize, b: usize) -> Option<Value> {
    Some(match op {
        "index" | "byte_at" => match guarded(|| s[a]) {
            Ok(x) => json!({"k": "byte", "v": x}),
            Err(_) => json!({"k": "panic"}),
        },
        "tail" | "from" => slice_res(guarded(|| s[a..].to_vec())),
        "to" => slice_res(guarded(|| s[..a].to_vec())),
        "to_incl" => slice_res(guarded(|| s[..=a].to_vec())),
        "range" => slice_res(guarded(|| s[a..b].to_vec())),
        "incl" => slice_res(guarded(|| s[a..=b].to_vec())),
        "incl_spent" => slice_res(guarded(|| s[spent(a, b)].to_vec())),
        "full" => bytes_json(s),
        _ => return None,
    })
}

pub fn run(paths: &[PathBuf], obs_out: &PathBuf) -> Value {
    let mut out = std::io::BufWriter::new(std::fs::File::create(obs_out).unwrap());
    let mut vectors = 0usize;
    let mut evals = 0usize;
    let mut mismatches = 0usize;
    let mut oracle_disagreements = 0usize;
    let mut by_op: BTreeMap<String, usize> = BTreeMap::new();
    let mut mism_by_op: BTreeMap<String, usize> = BTreeMap::new();
    let mut panics_expected = 0usize;
    let mut samples = vec![];
    for p in paths {
        let f = std::fs::File::open(p).unwrap();
        for line in BufReader::new(f).lines() {
            let line = line.unwrap();
            let t = line.trim();
            if !t.starts_with("\"{") {
                continue;
            }
            let inner: String = serde_json::from_str(t).unwrap();
            let v: Value = serde_json::from_str(&inner).unwrap();
            vectors += 1;
            let op = v["op"].as_str().unwrap();
            let bytes = bytes_of(&v["bytes"]);
            let other = bytes_of(&v["other"]);
            let (ai, bi) = (v["a"].as_i64().unwrap(), v["b"].as_i64().unwrap());
            let (a, b) = (u(ai), u(bi));
            let exp = &v["exp"];
            *by_op.entry(op.to_string()).or_default() += 1;
            if exp["k"] == "panic" {
                panics_expected += 1;
            }
            if let Some(s) = std_op(op, &bytes, a, b) {
                if s != *exp {
                    oracle_disagreements += 1;
                    eprintln!("oracle disagreement: {v} std says {s}");
                }
            }
            if samples.len() < 3 && vectors % 4099 == 7 {
                samples.push(v.clone());
            }
            if op == "concat" {
                for (ra, ha) in reps(&bytes) {
                    for (rb, hb) in reps(&other) {
                        evals += 1;
                        let (sa, sb) = (format!("{ha:?}{:?}", raw_of(&ha)), format!("{hb:?}{:?}", raw_of(&hb)));
                        let r = guarded(|| ha.concat(&hb));
                        let changed = format!("{ha:?}{:?}", raw_of(&ha)) != sa || format!("{hb:?}{:?}", raw_of(&hb)) != sb;
                        let observed = match &r {
                            Ok(x) => derived(x),
                            Err(_) => json!({"k": "panic"}),
                        };
                        if observed != *exp || changed {
                            mismatches += 1;
                            *mism_by_op.entry(op.to_string()).or_default() += 1;
                            let (inline, raw) = raw_of(&ha);
                            writeln!(out, "{}", json!({"op": op, "bytes": bytes, "a": ai, "b": bi, "other": other, "rep": ra, "rep_other": rb,
                                "inline": inline, "raw": raw, "observed": observed, "operands_changed": changed})).unwrap();
                        }
                    }
                }
                continue;
            }
            for (rname, h) in reps(&bytes) {
                evals += 1;
                let before = format!("{h:?}{:?}", raw_of(&h));
                let observed = run_op(op, &h, a, b, bi, &other);
                let changed = format!("{h:?}{:?}", raw_of(&h)) != before;
                if observed != *exp || changed {
                    mismatches += 1;
                    *mism_by_op.entry(op.to_string()).or_default() += 1;
                    let (inline, raw) = raw_of(&h);
                    writeln!(out, "{}", json!({"op": op, "bytes": bytes, "a": ai, "b": bi, "other": other, "rep": rname, "rep_other": "",
                        "inline": inline, "raw": raw, "observed": observed, "operands_changed": changed})).unwrap();
                }
            }
        }
    }
    json!({"vectors": vectors, "evaluations": evals, "mismatches": mismatches, "oracle_disagreements": oracle_disagreements,
           "by_op": by_op, "mismatches_by_op": mism_by_op, "expected_panics": panics_expected, "samples": samples})
}
