#!/usr/bin/env python3
"""Assemble /verif/seeded/<id>/ from the confirmed candidates and the check runs, and /verif/seeded/RESULTS.md."""
import json, os, re, shutil
CAND = "/verif/work/cand"; RES = "/verif/work/seed_results"; OUT = "/verif/seeded"
props = {json.loads(l)["id"]: json.loads(l) for l in open("/verif/properties.jsonl")}
rows = []
for p in sorted(os.listdir(CAND)):
    for k in range(1, 40):
        if not os.path.exists(f"{CAND}/{p}/m{k}.diff"):
            continue
        sid = f"{p}-m{k}"
        d = os.path.join(OUT, sid)
        os.makedirs(d, exist_ok=True)
        shutil.copy(f"{CAND}/{p}/m{k}.diff", f"{d}/patch.diff")
        shutil.copy(f"{CAND}/{p}/m{k}_demo.rs", f"{d}/demo.rs")
        notes = open(f"{CAND}/{p}/m{k}.txt").read()
        open(f"{d}/notes.txt", "w").write(notes)
        conf = open(f"{CAND}/{p}/m{k}.confirm").read() if os.path.exists(f"{CAND}/{p}/m{k}.confirm") else ""
        c = dict(re.findall(r"(\w+_rc)=(\d+)", conf))
        suite = re.findall(r"test result: ok\. (\d+) passed; 0 failed", conf)
        res = open(f"{RES}/{sid}.txt").read() if os.path.exists(f"{RES}/{sid}.txt") else ""
        secs = re.split(r"^(?=== )", res, flags=re.M)
        secs = [x for x in secs if x.startswith("== ")]
        m = re.search(r"== \S+ (\w+) rc=(\d+)", secs[0]) if secs else None
        rc = int(m.group(2)) if m else None
        whats = sorted(set(re.findall(r"^\s+\d+\s{3}(.*)$", secs[0] if secs else "", re.M)))[:4]
        other = []
        for sec in secs[1:]:
            m2 = re.search(r"== \S+ (\w+) rc=(\d+)", sec)
            if m2:
                other.append({"check": m2.group(1), "exit_code": int(m2.group(2)),
                              "what": sorted(set(re.findall(r"^\s+\d+\s{3}(.*)$", sec, re.M)))[:3]})
        files = sorted(set(re.findall(r"^[+-]{3} [ab]/(\S+)", open(f"{d}/patch.diff").read(), re.M)))
        first = next((l.strip() for l in notes.splitlines() if l.strip()), "")
        NOTES = {
            "C13-m2": "OUT OF DOMAIN: needs a bind of two never-bound vertices while 14 groups are alive (a 15th group), outside the limits every property is quantified over "
                      "(\"at most 14 groups alive at once\"); the check rightly stays silent",
            "C13-m3": "OUT OF DOMAIN: needs an earlier merge() of a NON-TREE right graph (join() vacates a slot); merge.rs documents non-tree graphs as \"unpredictable\" and every "
                      "property assumes the documented preconditions; the check rightly stays silent",
            "C05-m3": "OUT OF DOMAIN: same as C13-m3 - only after a non-tree merge (join() vacated slot) does next_id() count slots instead of ids",
            "C04-m3": "BREAKS C02, NOT C04: the vertex is never collected (it stays in keys()), so the later add() is an add on a PRESENT vertex and rightly changes nothing; "
                      "reported by ./check C02 (alive set differs), C04 as stated still holds",
            "C04-m4": "BREAKS C02, NOT C04: next_id() itself makes the id present (it shows up in keys() before any add), so the later add() is an add on a present vertex; "
                      "reported by ./check C02 and C05 runs (alive set differs right at the next_id call)",
        }
        NOTES.update({
            "C03-m5": "BREAKS C02, NOT C03: the 16th member is not listed, survives its group's collection (keys() keeps it), so the later add() is an add on a PRESENT vertex "
                      "and its old data/edges are what C03 demands; reported by ./check C02 (group partition at the bind, alive set)",
            "C03-m6": "BREAKS C02/C06, NOT C03: the 13th/14th group is silently not formed, its vertices are never collected and stay present; reported by ./check C02 and C06",
            "C04-m5": "BREAKS C02/C06, NOT C04: as C03-m6 (slots 14/15 never handed out): the vertices stay present, so add() on them rightly changes nothing",
            "C04-m6": "BREAKS C02, NOT C04: as C03-m5 (the 16th member is turned away and survives): add() on a present vertex rightly changes nothing",
            "C05-m6": "BREAKS C01/C02/C06, NOT C05: bind() with 12 groups alive makes both endpoints ABSENT (keys() no longer lists them), so next_id() handing out their ids "
                      "is right by C05's own wording (\"not present at that moment\"); reported by ./check C02 (alive set) and C06",
            "C12-m5": "BREAKS THE OBSERVATION ITSELF: keys() omits the last slot, so every property's alive set is wrong as soon as id capacity-1 is used; the judge stops "
                      "following a history whose alive set left the reference (a C02 report) and therefore does not blame merge(); reported by ./check C02",
            "C07-m6": "OUT OF DOMAIN: needs a slice of 18 or more reachable vertices; C13 limits slices to 14 vertices precisely because the rebuilt graph of a larger slice "
                      "stays within the group limits only for some edge orders (the same slice panics on the unchanged code when the cross-group edge comes first), "
                      "so no property promises that such a slice completes",
        })
        note = NOTES.get(sid, "")
        meta = {"id": sid, "property": p, "property_title": props[p]["title"], "summary": first[:300], "files_changed": files,
                "needs_to_manifest": "see notes.txt (written by the sub-agent that produced the change)",
                "confirmed_in_scratch_worktree": {"applies_and_builds": c.get("build_rc") == "0", "builds_with_hook_feature": c.get("build_verif_rc") == "0",
                                                  "existing_suite_passes_unedited": c.get("suite_rc") == "0", "suite_counts": suite,
                                                  "demo_passes_without_change": c.get("demo_on_clean_rc") == "0", "demo_fails_with_change": c.get("demo_on_mutant_rc") not in (None, "0"),
                                                  "command": "tools/confirm_seed.sh"},
                "check_run": {"command": f"tools/seedrun.sh {sid} seeded/{sid}/patch.diff {p}   (quick tier, scratch worktree of /repo + scratch copy of /verif)",
                              "exit_code": rc, "reported": rc == 1, "what": whats},
                "other_checks_run": other,
                "note": note}
        json.dump(meta, open(f"{d}/meta.json", "w"), indent=1, ensure_ascii=False)
        rows.append((sid, p, "reported (exit 1)" if rc == 1 else ("silent (exit 0)" + "".join(f"; ./check {o_['check']} reports it" for o_ in other if o_["exit_code"] == 1)) if rc == 0 else f"rc={rc}", "; ".join(w.split("  [")[0] for w in whats)[:150], ", ".join(sorted({w.split("[")[-1].rstrip("]").split(" N=")[0] for w in whats if "[" in w}))[:90], note[:80]))
# rows of earlier rounds whose candidates are not in work/cand any more (a fresh restore keeps seeded/, not work/) stay as they are
done = {r[0] for r in rows}
raw = {}
if os.path.exists(f"{OUT}/RESULTS.md"):
    for line in open(f"{OUT}/RESULTS.md"):
        m = re.match(r"\| (C\d+-m\d+) \| (C\d+) \| ([^|]*) \|", line)
        if m and m.group(1) not in done:
            raw[m.group(1)] = line.rstrip("\n")
            rows.append((m.group(1), m.group(2), m.group(3).strip(), "", "", ""))
def _key(r):
    m = re.match(r"(C\d+)-m(\d+)", r[0])
    return (m.group(1), int(m.group(2))) if m else (r[0], 0)
rows.sort(key=_key)
with open(f"{OUT}/RESULTS.md", "w") as f:
    f.write("# Seeded changes and what the checks said (quick tier)\n\nEach change was written by a sub-agent that saw only the property text (m3-m6: also short descriptions of the earlier ones for the same property, to avoid duplicates; m5/m6 had to need a LARGE state: 10+ groups, 12+ members, ids above 100, 25+ calls, ... or, for C15-C17, long or unusual inputs; m7 and up come from sub-agents that saw ALL twenty property texts and chose the property themselves - the last of them told to assume a strong checker and to write what it would most likely miss - and are filed under the first property their author named); each is confirmed (builds, suite passes, "
            "demo fails with / passes without). `tools/seedrun.sh <id> seeded/<id>/patch.diff <Cxx>` reproduces a row.\n\n| id | property | check result | what was reported | found by | note |\n|---|---|---|---|---|---|\n")
    for r in rows:
        f.write((raw[r[0]] if r[0] in raw else "| " + " | ".join(r) + " |") + "\n")
    n = sum(1 for r in rows if r[2].startswith("reported"))
    f.write(f"\n{n} of {len(rows)} reported by the check of the property they were written for; the others carry a note (out of the properties' domain, or breaking another property whose check reports them).\n")
print(len(rows), "seeded dirs;", sum(1 for r in rows if r[2].startswith("reported")), "reported")
