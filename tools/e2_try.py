#!/usr/bin/env python3
"""tools/e2_try.py <instance> '<json list of [N,cap,token]>' [extra_op ...] : run one product exploration on /repo's current tree
(development aid: no evidence, no replay files)."""
import json, os, sys, collections
sys.path.insert(0, os.path.join(os.path.dirname(os.path.abspath(__file__)), "..", "lib"))
import vlib, plans
run = vlib.Run("try")
vlib.build_harness()
acc = plans.Acc()
plans.e2_product(run, acc, sys.argv[1], [tuple(x) for x in json.loads(sys.argv[2])], extra_ops=tuple(sys.argv[3:]))
for r in acc.e2:
    print({k: r.get(k) for k in ("instance", "n", "cap", "spec_states", "spec_transitions", "executions", "product_states", "closed", "mismatching_transitions", "ops", "by_signature", "witness_verdicts")})
c = collections.Counter((f["prop"], f["what"][:90], f["source"]) for f in acc.fails)
for k, v in sorted(c.items()):
    print(v, k)
