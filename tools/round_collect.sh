#!/bin/bash
# tools/round_collect.sh <round-prefix> <Cxx> <k>... : collect a sub-agent's candidates from /tmp/<round-prefix>-Cxx/out,
# remove its scratch worktree, confirm each candidate (tools/confirm_seed.sh) and run the property's check against it
pre="$1"; p="$2"; shift 2
cd /verif || exit 2
mkdir -p work/cand/$p work/seed_results
wt=/tmp/$pre-$p
if [ -d "$wt/out" ]; then
  for k in "$@"; do for f in m$k.diff m${k}_demo.rs m$k.txt; do [ -f "$wt/out/$f" ] && cp "$wt/out/$f" work/cand/$p/; done; done
  git -C /repo worktree remove --force "$wt" 2>/dev/null; rm -rf "$wt"
fi
for k in "$@"; do
  [ -f work/cand/$p/m$k.diff ] || { echo "$p m$k: no diff"; continue; }
  tools/confirm_seed.sh $p $k
  tools/seedrun.sh "$p-m$k" work/cand/$p/m$k.diff $p > work/seed_results/$p-m$k.txt 2>&1
  grep -A3 "^== " work/seed_results/$p-m$k.txt | cut -c1-220
done
