#!/bin/bash
# tools/confirm_seed.sh <Cxx> <k> : confirm candidate work/cand/Cxx/mk.* in a scratch worktree:
# applies, builds (with and without the hook feature), passes the unedited suite, demo fails with it and passes without.
p="$1"; k="$2"; d=/verif/work/cand/$p; wt=/tmp/confirm-$p-$k
out=/verif/work/cand/$p/m$k.confirm
git -C /repo worktree remove --force "$wt" 2>/dev/null; rm -rf "$wt"
git -C /repo worktree add -q --detach "$wt" HEAD || exit 2
trap 'git -C /repo worktree remove --force "$wt" 2>/dev/null; rm -rf "$wt"' EXIT
cp -r /repo/target "$wt/target"
cd "$wt" || exit 2
mkdir -p tests; cp "$d/m${k}_demo.rs" tests/demo.rs
{
echo "candidate $p m$k"
timeout 900 cargo test --offline --test demo > /tmp/confirm-$p-$k.clean.log 2>&1; echo "demo_on_clean_rc=$?"
git apply "$d/m$k.diff" || echo "APPLY_FAILED"
timeout 900 cargo build --offline > /tmp/confirm-$p-$k.build.log 2>&1; echo "build_rc=$?"
timeout 900 cargo build --offline --features verif >> /tmp/confirm-$p-$k.build.log 2>&1; echo "build_verif_rc=$?"
timeout 900 cargo test --offline --test demo > /tmp/confirm-$p-$k.mut.log 2>&1; echo "demo_on_mutant_rc=$?"
rm -rf tests
timeout 1200 cargo test --offline > /tmp/confirm-$p-$k.suite.log 2>&1; echo "suite_rc=$?"
grep -E "^test result" /tmp/confirm-$p-$k.suite.log | tr '\n' ' '; echo
} > "$out" 2>&1
rm -f /tmp/confirm-$p-$k.*.log
cat "$out" | tr '\n' ' '; echo
