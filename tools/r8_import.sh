#!/bin/bash
# tools/r8_import.sh : import the free-range candidates of /tmp/r8-{A,B,C,D}/out (each names its property), confirm, run
cd /verif; mkdir -p work/seed_results
list=/verif/work/r8.list; : > $list
for a in A B C D; do for j in 1 2 3; do
  src=/tmp/r8-$a/out; [ -f "$src/m$j.diff" ] || continue
  p=$(grep -h "^PROPERTY" "$src/m$j.txt" | head -1 | grep -o "C[0-9][0-9]" | head -1); [ -n "$p" ] || continue
  d=/verif/work/cand/$p; mkdir -p $d
  last=$( (ls /verif/seeded | grep "^$p-m" | sed 's/.*-m//'; ls $d 2>/dev/null | grep -o "^m[0-9]*\.diff" | sed 's/m//; s/.diff//') | sort -n | tail -1); last=${last:-0}
  k=$((last + 1))
  cp "$src/m$j.diff" "$d/m$k.diff"; cp "$src/m${j}_demo.rs" "$d/m${k}_demo.rs"; cp "$src/m$j.txt" "$d/m$k.txt"
  echo "$p $k" >> $list
done; done
cat $list
one() { p=$1; k=$2; /verif/tools/confirm_seed.sh $p $k; SEEDRUN_FULL=1 /verif/tools/seedrun.sh "$p-m$k" "/verif/work/cand/$p/m$k.diff" $p > "/verif/work/seed_results/$p-m$k.txt" 2>&1; grep -E "^==|OK property|TOOL" "/verif/work/seed_results/$p-m$k.txt" | cut -c1-160; }
export -f one
cat $list | xargs -P 4 -L 1 bash -c 'one $0 $1'
