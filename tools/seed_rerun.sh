#!/bin/bash
# tools/seed_rerun.sh <Cxx-mK> [checks...] : run the check(s) again against a candidate in work/cand (or seeded/) and store the result
id="$1"; shift; p="${id%%-m*}"; k="${id##*-m}"
f=/verif/work/cand/$p/m$k.diff; [ -f "$f" ] || f=/verif/seeded/$id/patch.diff
mkdir -p /verif/work/seed_results
checks="${*:-$p}"
SEEDRUN_FULL=1 /verif/tools/seedrun.sh "$id" "$f" $checks > "/verif/work/seed_results/$id.txt" 2>&1
grep -E "^==|OK property|TOOL" "/verif/work/seed_results/$id.txt" | cut -c1-200
