#!/bin/bash
# tools/apalache_ind.sh [out-dir]  : the inductive-invariant obligations of spec/SodgInd.tla with Apalache, plus two
# probes that must fail.  Prints one line per obligation; exit 0 when all behave, 2 otherwise (a tool error: nothing
# here looks at /repo; the binding to the code goes through MC_ImplInd (TLC) and the engines E2/E3).
out="${1:-/verif/work/apalache}"; mkdir -p "$out"; cd /verif/spec || exit 2
run() { # name expect init inv length [file]
  local f="${6:-APA_Ind.tla}"
  local log="$out/$1.log"
  timeout 900 apalache-mc check --init="$3" --inv="$4" --length="$5" --out-dir="$out/run" "$f" > "$log" 2>&1
  local got="other"
  grep -q "The outcome is: NoError" "$log" && got="holds"
  grep -q "The outcome is: Error" "$log" && got="violated"
  local secs=$(grep -o "Total time: [0-9.]* sec" "$log" | grep -o "[0-9.]*" | head -1)
  echo "APALACHE $1 expected=$2 got=$got seconds=${secs:-?}"
  [ "$got" = "$2" ]
}
rc=0
run init-implies-inv      holds    Init    IndInv             0 || rc=2
run inv-is-inductive      holds    IndInit IndInv             1 || rc=2
run dies-only-by-last-read holds   IndInit DiesOnlyByLastRead 1 || rc=2
run no-underflow          holds    IndInit NoUnderflow        0 || rc=2
run probe-full-group      violated IndInit ProbeFullGroup     0 || rc=2
# the pinned tree's put() rule (D3: an overwritten unread datum counts twice) must break inductiveness
mkdir -p "$out/mut"; sed 's/IF tag\[v\] >= 2 \/\\ pers\[v\] # "stored" THEN/IF tag[v] >= 2 THEN/' SodgInd.tla > "$out/mut/SodgInd.tla"; cp APA_Ind.tla "$out/mut/"
if cmp -s SodgInd.tla "$out/mut/SodgInd.tla"; then echo "APALACHE probe-tree-put-rule: the rule to mutate was not found"; rc=2; else
  (cd "$out/mut" && run probe-tree-put-rule violated IndInit IndInv 1) || rc=2
fi
rm -rf "$out/run" "$out/mut"
exit $rc
