#!/usr/bin/env python3
"""tools/e3_try.py '<json list of drive plans>'  : run E3 traces on /repo's current tree and print what the judge says
(development aid: no evidence, no replay files)."""
import json, os, sys, collections
sys.path.insert(0, os.path.join(os.path.dirname(os.path.abspath(__file__)), "..", "lib"))
import vlib, plans
run = vlib.Run("try")
vlib.build_harness()
acc = plans.Acc()
plans.e3_drive(run, acc, json.loads(sys.argv[1]), label="E3 try")
for r in acc.e3:
    print("N", r["n"], "events_judged", r["events_judged"], "void_from", r["void_from"], "lens_failures", r["lens_failures"],
          {k: v for k, v in r["stats"].items() if True})
    for m in r["traces"]:
        print("   ", m)
c = collections.Counter((f["prop"], f["what"][:90], f["source"]) for f in acc.fails)
for k, v in sorted(c.items()):
    print(v, k)
