#!/bin/bash
# tools/tlaps_ind.sh [scratch-dir] : the TLAPS proofs of spec/SodgIndProofs.tla (structural invariant of SodgInd inductive
# for ALL sizes; vertices die only in data() and as one whole member list), plus a probe that must FAIL (data() clearing
# the member list without resetting the tags).  Runs in a scratch copy (tlapm writes .tlacache next to the module).
# Prints one line per run; exit 0 when both behave, 2 otherwise (tool error: nothing here looks at /repo).
out="${1:-/verif/work/tlaps}"; rm -rf "$out"; mkdir -p "$out/proof" "$out/probe"
cp /verif/spec/SodgInd.tla /verif/spec/SodgIndProofs.tla "$out/proof/" || exit 2
rc=0
(cd "$out/proof" && timeout 1500 tlapm --threads 8 --cleanfp SodgIndProofs.tla > ../proof.log 2>&1)
n=$(grep -o "All [0-9]* obligations proved" "$out/proof.log" | grep -o "[0-9]*")
if [ -n "$n" ]; then echo "TLAPS proofs expected=proved got=proved obligations=$n"; else echo "TLAPS proofs expected=proved got=failed obligations=$(grep -o '[0-9]*/[0-9]* obligations failed' "$out/proof.log")"; rc=2; fi
cp /verif/spec/SodgIndProofs.tla "$out/probe/"
sed 's/THEN \/\\ tag. = \[u \\in Ids |-> IF u \\in members\[b\] THEN 0 ELSE tag\[u\]\]/THEN \/\\ tag'"'"' = tag/' /verif/spec/SodgInd.tla > "$out/probe/SodgInd.tla"
if cmp -s /verif/spec/SodgInd.tla "$out/probe/SodgInd.tla"; then echo "TLAPS probe: the rule to mutate was not found"; rc=2; else
  (cd "$out/probe" && timeout 1500 tlapm --threads 8 --cleanfp SodgIndProofs.tla > ../probe.log 2>&1)
  f=$(grep -o '[0-9]*/[0-9]* obligations failed' "$out/probe.log")
  if [ -n "$f" ]; then echo "TLAPS probe-tags-not-reset expected=failed got=failed obligations=$f"; else echo "TLAPS probe-tags-not-reset expected=failed got=proved"; rc=2; fi
fi
# second probe: the pinned tree's put() rule (D3: an overwritten unread datum counts twice) must break the counting half
mkdir -p "$out/probe2"; cp /verif/spec/SodgIndProofs.tla "$out/probe2/"
sed 's/IF tag\[v\] >= 2 \/\\ pers\[v\] # "stored" THEN/IF tag[v] >= 2 THEN/' /verif/spec/SodgInd.tla > "$out/probe2/SodgInd.tla"
if cmp -s /verif/spec/SodgInd.tla "$out/probe2/SodgInd.tla"; then echo "TLAPS probe2: the rule to mutate was not found"; rc=2; else
  (cd "$out/probe2" && timeout 1500 tlapm --threads 8 --cleanfp SodgIndProofs.tla > ../probe2.log 2>&1)
  f=$(grep -o '[0-9]*/[0-9]* obligations failed' "$out/probe2.log")
  if [ -n "$f" ]; then echo "TLAPS probe-tree-put-rule expected=failed got=failed obligations=$f"; else echo "TLAPS probe-tree-put-rule expected=failed got=proved"; rc=2; fi
fi
rm -rf "$out/proof" "$out/probe" "$out/probe2"
exit $rc
