#!/bin/bash
# run every seeded candidate against the check of the property it was written for (scratch copies, 4 at a time);
# candidates that break ANOTHER property than the one they were written for are also run against that property's check
cd /verif || exit 2
also() { case "$1" in C03-m5|C03-m6|C04-m3|C04-m4|C04-m5|C04-m6|C05-m6|C12-m5) echo C02;; *) echo "";; esac; }
one() { p="$1"; k="$2"; tools/seedrun.sh "$p-m$k" work/cand/$p/m$k.diff $p $(also "$p-m$k") > work/seed_results/$p-m$k.txt 2>&1; grep "^== " work/seed_results/$p-m$k.txt | tr '\n' ' '; echo; }
export -f one also
for p in C01 C02 C03 C04 C05 C06 C07 C08 C09 C10 C11 C12 C13 C14 C15 C16 C17 C18 C19 C20; do for k in 1 2 3 4 5 6 7 8 9 10 11 12; do [ -f work/cand/$p/m$k.diff ] && echo "$p $k"; done; done | xargs -P 4 -n 2 bash -c 'one "$0" "$1"'
