#!/bin/bash
# run every seeded candidate against the check of the property it was written for (scratch copies, 4 at a time)
cd /verif || exit 2
one() { p="$1"; k="$2"; tools/seedrun.sh "$p-m$k" work/cand/$p/m$k.diff $p > work/seed_results/$p-m$k.txt 2>&1; head -1 work/seed_results/$p-m$k.txt | grep -o "== .*"; grep -m1 "== " work/seed_results/$p-m$k.txt; }
export -f one
for p in C01 C02 C03 C04 C05 C06 C07 C08 C09 C10 C11 C12 C13 C14 C15 C16 C17 C18 C19 C20; do for k in 1 2 3 4; do [ -f work/cand/$p/m$k.diff ] && echo "$p $k"; done; done | xargs -P 4 -n 2 bash -c 'one "$0" "$1"'
