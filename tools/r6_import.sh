#!/bin/bash
# tools/r6_import.sh <Cxx> : import the candidates a sub-agent left in /tmp/r6-<Cxx>/out as work/cand/<Cxx>/m<k>.* (next free numbers),
# confirm each in a scratch worktree (tools/confirm_seed.sh) and run the property's own check against it (tools/seedrun.sh)
p="$1"; src=/tmp/${ROUND:-r6}-$p/out; d=/verif/work/cand/$p; mkdir -p "$d" /verif/work/seed_results
last=$(ls /verif/seeded | grep "^$p-m" | sed 's/.*-m//' | sort -n | tail -1); last=${last:-0}
for j in 1 2; do
  [ -f "$src/m$j.diff" ] || continue
  k=$((last + j))
  cp "$src/m$j.diff" "$d/m$k.diff"; cp "$src/m${j}_demo.rs" "$d/m${k}_demo.rs"; cp "$src/m$j.txt" "$d/m$k.txt"
  /verif/tools/confirm_seed.sh "$p" "$k"
  SEEDRUN_FULL=1 /verif/tools/seedrun.sh "$p-m$k" "$d/m$k.diff" "$p" ${EXTRA_CHECKS} > "/verif/work/seed_results/$p-m$k.txt" 2>&1
  head -12 "/verif/work/seed_results/$p-m$k.txt"
done
