#!/bin/bash
# run every quick check on the unchanged tree, one after the other; evidence/<id>.json is rewritten by each
cd /verif || exit 2
if ! git -C /repo diff --quiet; then echo "/repo has uncommitted changes"; exit 2; fi
for p in C01 C02 C03 C04 C05 C06 C07 C08 C09 C10 C11 C12 C13 C14 C15 C16 C17 C18 C19 C20; do
  s=$(date +%s); out=$(VERIF_SEED=1 VERIF_TIER=quick ./check $p --tier quick 2>&1); rc=$?
  echo "$p rc=$rc $(( $(date +%s) - s ))s $(echo "$out" | grep -E 'OK property|VIOLATION|KNOWN|TOOL-ERROR' | head -3 | cut -c1-160)"
done
