#!/usr/bin/env python3
"""Is the binding real?  (DESIGN section 7.)  Run by `./check setup`.
 1. E3: a clean recorded trace is accepted; the same trace with one id removed from one logged alive list is rejected by the
    C02 lens at exactly that line; with one event dropped it is rejected at or after that line.
 2. E2: the emitted transition system with ONE expected field flipped makes the product exploration report a mismatch.
Exit 0 when all four behave as they must, 1 otherwise."""
import json, os, sys
sys.path.insert(0, os.path.join(os.path.dirname(os.path.abspath(__file__)), "..", "lib"))
import vlib, plans

run = vlib.Run("bindtest")
ok = True
try:
    vlib.build_harness()
    tr = run.fresh("t", ".ndjson")
    vlib.sh([vlib.HARNESS, "drive", "--out", tr, "--scratch", run.dir, "--plan",
             json.dumps([dict(profile="mixed", n=2, cap=16, steps=600, seed=5, window=8)])])
    v = vlib.judge(run, tr, 2)
    print("clean trace:", len(v["fails"]), "failures (must be 0)")
    ok &= len(v["fails"]) == 0
    lines = open(tr).read().splitlines()
    # corrupt: remove one id from one alive list
    k = next(i for i, l in enumerate(lines) if i > 300 and '"alive":[' in l and json.loads(l).get("obs") and len(json.loads(l)["obs"][0].get("alive", [])) > 1)
    e = json.loads(lines[k])
    gone = e["obs"][0]["alive"].pop(0)
    e["obs"][0]["kids"] = [x for x in e["obs"][0]["kids"] if x[0] != gone]
    e["obs"][0]["dat"] = [x for x in e["obs"][0]["dat"] if x[0] != gone]
    bad = run.fresh("bad", ".ndjson")
    open(bad, "w").write("\n".join(lines[:k] + [json.dumps(e)] + lines[k + 1:]) + "\n")
    v = vlib.judge(run, bad, 2)
    first = min((f[1] for f in v["fails"] if f[2] == "C02"), default=None)
    print(f"one alive entry removed at line {k + 1}: first C02 failure at line {first} (must be {k + 1})")
    ok &= first == k + 1
    # drop one event (a put or bind)
    d = next(i for i, l in enumerate(lines) if i > 200 and json.loads(l).get("op") in ("put", "bind", "add") and not json.loads(l).get("same"))
    dropped = run.fresh("drop", ".ndjson")
    open(dropped, "w").write("\n".join(lines[:d] + lines[d + 1:]) + "\n")
    v = vlib.judge(run, dropped, 2)
    first = min((f[1] for f in v["fails"] if not f[2].startswith("X-")), default=None)
    print(f"event at line {d + 1} dropped: first failure at line {first} (must exist and be >= {d + 1})")
    ok &= first is not None and first >= d + 1
    # E2: flip one expected field in the transition system
    ts, _ = vlib.emit_ts(run, "SodgX", plans.cfg_emit("A3", ()))
    flipped = run.fresh("ts", ".out")
    done = False
    with open(ts) as f, open(flipped, "w") as g:
        for line in f:
            if not done and line.startswith('"{') and '\\"op\\":\\"put\\"' in line and '\\"stored\\"' in line:
                inner = json.loads(json.loads(line))
                vtx = str(inner["ev"]["v"])
                if inner["post"]["st"][vtx] == "stored" and inner["pre"]["st"][vtx] == "empty":
                    inner["post"]["val"][vtx] = "none"
                    inner["post"]["st"][vtx] = "empty"
                    line = json.dumps(json.dumps(inner, separators=(",", ":"))) + "\n"
                    done = True
            g.write(line)
    j = vlib.product(run, [flipped], plans.TOKENS[0], 2, 3, budget=400000)
    print("one expected field flipped in the transition system:", j["mismatching_transitions"], "mismatching transitions (must be > 0)")
    ok &= j["mismatching_transitions"] > 0 and done
finally:
    run.cleanup()
print("BINDING", "OK" if ok else "BROKEN")
sys.exit(0 if ok else 1)
