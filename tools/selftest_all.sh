#!/bin/bash
# run my own selftest patches (/verif/selftest/*.diff) against the check of the property named in the .txt (scratch copies)
cd /verif || exit 2
mkdir -p work/selftest_results
one() { n="$1"; p=$(head -1 selftest/$n.txt | sed 's/property: //'); tools/seedrun.sh "$n" selftest/$n.diff $p > work/selftest_results/$n.txt 2>&1; grep -m1 "== " work/selftest_results/$n.txt; }
export -f one
ls selftest/*.diff | xargs -n1 basename | sed 's/.diff//' | xargs -P 4 -n 1 bash -c 'one "$0"'
