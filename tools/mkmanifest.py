#!/usr/bin/env python3
"""Regenerates /verif/MANIFEST.json (one place for the per-check texts)."""
import json, subprocess

COMMON_NOTE = ("Trusted: TLC and the CommunityModules Json/IOUtils (and, for the inductive invariant of C01/C02/C06, tlapm with its back ends and Apalache); the read-only hook verif_snapshot() (cargo feature `verif`); the harness "
               "projection/parsers; catch_unwind. Exhaustive parts are exhaustive for the bounded instances only; real limits by validated traces.")
TECH = "explicit TLA+ specification + TLC; "

C = {
 "C01": ("model_checking", "5/C01",
  "E1: TLC checks that the exact model (Sodg.tla) refines SodgSafe.tla, the weakest GC-safe machine (history variables link/bound), and the shrink-only-by-first-read "
  "action properties, on every reachable state of the bounded instances; E2: every transition TLC enumerates is executed on the real Sodg to a fix-point over "
  "(spec state, full internal snapshot): all histories of any length over the small alphabets, incl. two/three groups alive and cross-group edges; E3: long biased "
  "histories at the real limits (14 groups alive, 16-member group, N labels, capacity 256, pumped GC cycles) are replayed through Trace.tla whose C01 lens follows the "
  "OBSERVED alive set, so late or missing collection is not an alarm. Additionally the counter rules (SodgInd.tla, refined by SodgImpl) are proved with TLAPS for all sizes: "
  "vertices disappear only in data() and only as one whole member list (SodgIndProofs.tla), and checked with Apalache at fixed sizes.",
  TECH + "refinement Sodg => SodgSafe; inductive invariant (TLAPS, Apalache); spec->code product exploration; code->spec trace validation (Trace.tla, lens C01)"),
 "C02": ("model_checking", "5/C02",
  "E1: SodgImpl.tla (slot table, counters, sentinels; the rules of ops.rs) refines the exact model with counter = recount, and the pinned tree's rules are REJECTED by the "
  "same check (non-vacuity); E2: product closure of spec and code on bounded instances; E3: real-limit traces validated event by event against the exact model (alive set "
  "equal after every call, no panic), pumped GC cycle shapes derived from TLC's transition system, deterministic life-cycles at the limits (16 members, 14 groups). The counter "
  "invariant and exact death (a group is removed exactly by the read of its last unread datum; no underflow) are proved inductive for ALL sizes with TLAPS (SodgIndProofs.tla, 423 "
  "obligations) and independently with Apalache at fixed sizes; SodgImpl refines that module (TLC).",
  TECH + "refinement SodgImpl => Sodg and => SodgInd; inductive invariant (TLAPS for all sizes, Apalache); spec->code product exploration; code->spec trace validation (lens C02)"),
 "C03": ("model_checking", "5/C03",
  "E1 action properties ReadBack/OthersUntouched on instances with two labels and two values; E2 compares kids()/kid() of every present vertex and the data bytes after "
  "every executed transition (overwrite in place, N+1st label guard, collections elsewhere); E3 with all three label variants and data of 0..20 bytes across the 8-byte boundary.",
  TECH + "spec->code product exploration; code->spec trace validation (lens C03)"),
 "C04": ("model_checking", "5/C04",
  "E1 AddBlankOrNothing on the model; E2 contains every (state, add(v)) pair of the bounded instances, including states after collections whose dead slots still hold old "
  "contents (snapshots are not masked); the C04 lens demands an identical complete snapshot for add on a present vertex and a blank vertex for add on an absent id; E3 re-adds "
  "present and collected ids at scale.",
  TECH + "spec->code product exploration; trace validation (lens C04)"),
 "C05": ("model_checking", "5/C05",
  "E1: World.tla action property FreshIds with the history variable `issued` inherited by clone, invariant IssuedBelowPos; E2: next_id is an action of the bounded instances and "
  "clones replace the object inside the exploration; E3: traces interleave next_id with everything else on originals, clones and reloaded copies, merges and scripts; the lens "
  "accepts any fresh id, not only the model's choice. Script deployment is an action of World.tla as well (FreshDeploy: every variable stands for an id that was neither present nor issued, "
  "two variables never share one); copies are also made with Clone::clone_from; an id returned by an allocator the model holds to be exhausted must still be fresh.",
  TECH + "World.tla with history variable; product exploration with clones; trace validation (lens C05)"),
 "C06": ("model_checking", "5/C06",
  "E1: SodgImpl invariants (slot free iff list empty, occupied slots = groups, reserved lists kept) on scaled slot tables explored to closure; E2: fix-point of the product (a "
  "slot leaked per cycle would keep producing new snapshots for the same abstract state); E3: every GC cycle shape in TLC's transition system pumped 4..40 times with 0/1/7/13 "
  "background groups alive plus 14-groups-alive and 16-member traces and deterministic life-cycles at the limits, validated against the exact model. The invariant behind it "
  "(tags = member lists, counter = recount, so a list is emptied exactly when its group dies) is proved inductive for all sizes (TLAPS) and at fixed sizes (Apalache). Sodg!Recoverable / SodgImpl!ImplRecoverable: from "
  "EVERY reachable state, reading every group out (DrainAll) leaves no group and removes exactly the grouped vertices; the random histories end with that drain and a refill of up to 14 new groups.",
  TECH + "SodgImpl invariants; inductive invariant (TLAPS, Apalache); product closure; pumped-cycle trace validation (lens C06)"),
 "C07": ("exploration", "5/C07",
  "The memory-safety verdict comes from AddressSanitizer watching the harness replay histories (sampled, hence `exploration`): hundreds of short histories that each overstep "
  "one limit or precondition and keep using the object, plus the long drivers. The specification contributes the histories' classification: inside the limits -> must complete, "
  "one of the three named overruns -> must panic (Trace.tla, Overrun), otherwise left open. TLA+ does not decide memory safety itself.",
  TECH + "AddressSanitizer replay of driver histories, calls classified by the specification's guards (lens C07)"),
 "C08": ("model_checking", "5/C08",
  "E1: World.tla CopyIsExact/Independent; E2: save+load replaces the object at every product state, so every continuation known to the exploration is applied to a reloaded copy; "
  "mismatching paths are re-run side by side (original and copy, same calls) and judged by the mirror lens, so a defect elsewhere is not blamed on save/load; E3: long traces with "
  "reloads at random points followed by mirrored calls; label values outside the text form and inline/heap data included. Data of 4 KiB to 17 MiB "
  "(tokens in the trace), Hex::Vector asked for at any length, confusable label and data values (look-alike characters, trailing TAB / no-break space, +0.0 / -0.0, NaNs). The checkpoint file is a "
  "snapshot in time (World!FileIsSnapshot; Trace!SaveEv / LoadEv): save() now, further calls on the original, load() later must return the graph that was saved.",
  TECH + "product exploration through save+load; mirrored trace validation (lens C08)"),
 "C09": ("fault_enumeration", "5/C09",
  "Image.tla states the crash model (file absent / strict prefix / complete) and TLC checks the layout argument (a schema-driven decoder rejects every strict prefix of every "
  "encoding of a count-prefixed value tree). The crash point is then enumerated COMPLETELY on real images: hundreds of distinct images (one per sampled specification state plus "
  "real-limit graphs), each written over a longer earlier file, each cut at EVERY byte position below the file length; load() must return Err.",
  TECH + "complete enumeration of the cut position per image; outcome judged by Trace.tla (lens C09)"),
 "C10": ("model_checking", "5/C10",
  "As C08 with clone(); additionally every executed transition runs on a clone while the original's complete snapshot is checked to be untouched (independence). Copies are made with clone() and, into a handle "
  "that already holds a graph, with Clone::clone_from; data of 4 KiB to 17 MiB, read before the copy, are read again on both sides.",
  TECH + "product exploration through clone(); independence check on every transition; mirrored trace validation (lens C10)"),
 "C11": ("model_checking", "5/C11",
  "MergeGen.tla enumerates every scenario (two labelled trees, every placement of data incl. already-read data, every `left`), checks the grafting contract on the model for each "
  "(E1) and prints the expected result with read continuations; the harness executes every scenario; the C11 lens of Trace.tla compares modulo the choice of fresh ids; E3: random "
  "larger trees (ids scattered up to 200) merged and read afterwards; trees spanning several groups (17-22 vertices, also as one path 19-21 edges deep), "
  "left graphs whose capacity leaves exactly as many ids as the merge needs (vertices from next_id()).",
  TECH + "TLC-enumerated merge scenarios with model-level contract; spec->code execution; trace validation (lens C11)"),
 "C12": ("model_checking", "5/C12",
  "MergeGen.tla enumerates right graphs = tree + up to two extra vertices (isolated, with data, or a detached edge), every left tree and `left`; Contract states Ok <=> nothing "
  "missed on the model; the harness compares Result and the vertices named in the error text.",
  TECH + "TLC-enumerated merge scenarios; spec->code execution; trace validation (lens C12)"),
 "C13": ("model_checking", "5/C13",
  "E1: World.tla SliceExact; E2: slice transitions (every start vertex, every predicate of a six-shape family) are part of the emitted transition system of instances with cycles, "
  "shared targets and two paths to one vertex, and are executed at every product state; E3: dense random graphs of <= 13 vertices sliced with random predicates, the slice then used.",
  TECH + "slices as transitions of the product exploration; trace validation (lens C13)"),
 "C14": ("model_checking", "5/C14",
  "ScriptGen.tla grows every in-domain program command by command (<= 4 commands quick), renders it in four legal formattings and in every single-fault corruption of the classes "
  "the property requires to be rejected; the harness deploys the text and, independently, applies the same API calls to another graph and compares the two completely (and with the "
  "model's DeployOp).",
  TECH + "TLC-generated programs/renderings/faults; text vs API-calls differential; trace validation (lens C14)"),
 "C15": ("model_checking", "5/C15",
  "Hex.tla states every accessor as a function of the byte sequence; HexGen.tla enumerates strings of every length 0..11 (0..17 thorough), every index and every (start,end) of the six "
  "range kinds incl. usize::MAX; each case runs on from_slice / from_vec / hand-built Vector / hand-built Bytes with junk padding; the spec's range semantics is cross-checked against "
  "std slices (disagreement = tool error). Longer strings around the powers of two up to 4097 bytes with indices at the edges; inclusive ranges that were iterated to their end "
  "(Hex!RangeInclSpent); every Hex an operation RETURNS (tail, an indexed write, a parse) must equal the canonical and the heap value of its bytes in both directions. "
  "A shallow but legitimate use of the technique: vector enumeration from a TLA+ model.",
  TECH + "vector enumeration by TLC (HexGen), outcomes judged by HexJudge.tla"),
 "C16": ("model_checking", "5/C16",
  "All pairs of lengths (0..11)^2 x all representation pairs; HexJudge.tla classifies every differing outcome as VIOLATION or as the recorded known finding D6 (exact signature: "
  "inline receiver shorter than 8 bytes spilling to the heap copies its whole array).",
  TECH + "vector enumeration by TLC (HexGen), outcomes judged by HexJudge.tla incl. the known-finding predicate"),
 "C17": ("model_checking", "5/C17",
  "Label.tla is a three-valued oracle (required Ok with the denoted label / required Err / left open); TLC checks RoundTrip, BackTrip, Injective, TooLong on the model over all texts "
  "up to 4 symbols (5 thorough) of an 11-symbol alphabet (alpha, digits, sign, ASCII, 2/3/4-byte characters, blank) plus structured texts up to 10/11; the harness runs from_str / "
  "to_string / kid() lookups on every text.",
  TECH + "model-level theorems + vector enumeration by TLC (LabelGen), outcomes judged by LabelJudge.tla"),
 "C18": ("model_checking", "5/C18",
  "At every product state (dead slots with stale contents and never-added slots included) to_xml() and to_dot() are parsed back into facts and compared with the specification state; "
  "two objects with the same vertices, edges and data must print identical text. The same observers every 20-60 calls of long histories at the limits (E3): 16-label hubs, 14 groups, "
  "ids up to 255, 297 vertices at once, a path of 224 vertices, labels that print alike on one vertex to one target, labels holding a quote / a backslash (DOT strings are read with "
  "their escapes), data of 4 KiB to 1 MiB on original and copy.",
  TECH + "read-only observers in the product exploration and in validated traces; facts judged by Trace.tla (lens C18)"),
 "C19": ("model_checking", "5/C19",
  "E1: MC_Indep.tla, two instances of the model with different N/capacity stepped by the same calls keep the same answers, and so do a slice from every vertex and the merge of that slice at every vertex (SlicesSame, MergesSame); differential replay: the same call sequence, recorded in "
  "the smallest configuration and validated by Trace.tla, is replayed twice more there (new processes) and in each larger configuration; complete observation logs must be identical.",
  TECH + "two-instance model check; differential replay of validated traces across configurations and processes"),
 "C20": ("model_checking", "5/C20",
  "At every product state: Debug, Display and v_print of every present vertex are parsed and compared with the specification state; inspect(v) is a transition of the emitted system "
  "whose expected edge set TLC computes (Reach); a process killed by stack overflow or a hang is reported with the call that was running. E3: the same observers in long "
  "histories at the limits, incl. one path of 224 vertices through fourteen groups; where edges dangle, what inspect lists is left open but it must come back.",
  TECH + "read-only observers in the product exploration; facts judged by Trace.tla (lens C20)"),
}

props = [json.loads(l) for l in open("/verif/properties.jsonl")]
checks = []
for p in props:
    pid = p["id"]
    level, ref, text, tech = C[pid]
    checks.append({"property_id": pid, "quick_cmd": f"./check {pid} --tier quick", "thorough_cmd": f"./check {pid} --tier thorough",
                   "evidence_file": f"/verif/evidence/{pid}.json", "replay_cmd_template": f"./check {pid} --replay {{path}}",
                   "engine": "check", "level_claimed": {"category": level, "text": text, "design_ref": "DESIGN.md section " + ref},
                   "level_note": COMMON_NOTE, "technique": tech})
hooks = subprocess.run(["git", "-C", "/repo", "log", "--format=%h %s"], capture_output=True, text=True).stdout.splitlines()
hook_commits = [l.split()[0] for l in hooks if l.split(" ", 1)[1].startswith("verif:")]
m = {"version": 1,
     "setup_cmd": "cd /verif && ./check setup",
     "hooks": {"guard": "cargo feature `verif`", "enable": "the harness path-depends on /repo with features=[\"verif\"]",
               "baseline_off_cmd": "cd /repo && cargo test --workspace --no-fail-fast --offline", "source_commits": hook_commits, "add_only": True},
     "engines": [{"name": "check", "path": "/verif/check", "serves_properties": [p["id"] for p in props],
                  "kind_free_text": "python driver (lib/plans.py, lib/vlib.py): TLC model checking (E1), product exploration spec->code (E2), drivers + Trace.tla trace validation code->spec (E3), TLC-generated vectors/scenarios (E4), AddressSanitizer replay (E5)"},
                 {"name": "spec", "path": "/verif/spec", "serves_properties": [p["id"] for p in props],
                  "kind_free_text": "TLA+ modules: SodgCore, Sodg, SodgX, SodgR, SodgSafe, MC_Safe, SodgImpl, World, MC_Indep, Trace, MergeGen, ScriptGen, Hex/HexGen/HexJudge, Label/LabelGen/LabelJudge, Image"},
                 {"name": "harness", "path": "/verif/harness", "serves_properties": [p["id"] for p in props],
                  "kind_free_text": "Rust crate, path-dependent on /repo with feature verif; sub-commands product, drive, record, merge, scriptvec, hexvec, labelvec, truncate"}],
     "checks": checks,
     "notes": "Known findings: /verif/KNOWN_FINDINGS.txt. Seeded changes used to test the checks: /verif/seeded/. Replay files of violations are written to /verif/replays/.",
     "not_applicable": []}
json.dump(m, open("/verif/MANIFEST.json", "w"), indent=1, ensure_ascii=False)
print("checks:", len(checks), "hook commits:", hook_commits)
