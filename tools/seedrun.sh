#!/bin/bash
# tools/seedrun.sh <name> <patch.diff> <Cxx> [...]  : run checks against a seeded change in a scratch copy
# (scratch worktree of /repo + scratch copy of /verif; both removed afterwards).  For bulk sensitivity runs
# in parallel; the prescribed in-place way is tools/seedtest.sh.
name="$1"; patch="$(readlink -f "$2")"; shift 2
wt=/tmp/seed-$name; vf=/tmp/seedverif-$name
rm -rf "$vf"; git -C /repo worktree remove --force "$wt" 2>/dev/null
git -C /repo worktree add -q --detach "$wt" HEAD || exit 2
cleanup() { git -C /repo worktree remove --force "$wt" 2>/dev/null; rm -rf "$vf" "$wt"; }
trap cleanup EXIT
git -C "$wt" apply "$patch" || { echo "patch does not apply"; exit 2; }
mkdir -p "$vf"; rsync -a --exclude work --exclude .git --exclude evidence --exclude replays --exclude seeded /verif/ "$vf/"; sed -i "s#path = \"/repo\"#path = \"$wt\"#" "$vf/harness/Cargo.toml"
sed -i "s|path = \"/repo\"|path = \"$wt\"|" "$vf/harness/Cargo.toml"
if [ -n "$SEEDRUN_CMD" ]; then (cd "$vf" && VERIF_REPO="$wt" VERIF_CACHE=/verif/work/cache VERIF_TLC_WORKERS=4 bash -c "$SEEDRUN_CMD"); exit $?; fi
for p in "$@"; do
  out=$(cd "$vf" && VERIF_REPO="$wt" VERIF_CACHE=/verif/work/cache VERIF_TLC_WORKERS=4 ./check "$p" 2>&1); rc=$?
  [ -n "$SEEDRUN_FULL" ] && echo "$out" > "/verif/work/seed_results/$name-$p.full"
  echo "== $name $p rc=$rc"; echo "      violation_lines=$(echo "$out" | grep -c '^VIOLATION')"
  echo "$out" | grep -E "KNOWN|TOOL-ERROR|OK property|^  " | cut -c1-260 | sort | uniq -c | sort -rn | head -8
done
