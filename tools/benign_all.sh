#!/bin/bash
# run the behaviour-preserving changes (/verif/selftest/benign/*.diff) against the checks of the properties each could touch:
# every run must be silent (exit 0), except b3-skip-one-id under C11/C19 (explained in its .txt).  Scratch copies, 4 at a time.
cd /verif || exit 2
mkdir -p work/benign_results
checks() { case "$1" in
  b1-last-empty-slot) echo "C01 C02 C06 C10";; b3-skip-one-id) echo "C05 C14";;
  hex-b1) echo "C15";; hex-b2) echo "C16";; hex-b3) echo "C15 C16";;
  merge-b1) echo "C12";; merge-b2) echo "C11 C12";; merge-b3) echo "C13 C07";;
  misc-b1) echo "C20";; misc-b2) echo "C18";; misc-b3) echo "C20";;
  ops-b1) echo "C05 C19";; ops-b2) echo "C02 C01 C06";; ops-b3) echo "C02 C12";;
  text-b1) echo "C17";; text-b2) echo "C14";; text-b3) echo "C14 C05";; *) echo "";; esac; }
one() { n="$1"; tools/seedrun.sh "$n" selftest/benign/$n.diff $(checks "$n") > work/benign_results/$n.txt 2>&1; grep "^== " work/benign_results/$n.txt | tr '\n' ' '; echo; }
export -f one checks
ls selftest/benign/*.diff | xargs -n1 basename | sed 's/.diff//' | xargs -P 4 -n 1 bash -c 'one "$0"'
