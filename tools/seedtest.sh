#!/bin/bash
# tools/seedtest.sh <patch.diff> <Cxx> [<Cyy> ...] : apply a seeded change to /repo, run the checks, undo it.
patch="$(readlink -f "$1")"; shift
cd /repo || exit 2
if ! git diff --quiet; then echo "repo dirty"; exit 2; fi
git apply "$patch" || { echo "patch does not apply"; exit 2; }
trap 'git -C /repo checkout -- . ' EXIT
for p in "$@"; do
  out=$(cd /verif && ./check "$p" 2>&1); rc=$?
  echo "== $p rc=$rc"; echo "$out" | grep -E "VIOLATION|KNOWN|TOOL-ERROR|OK property|^  " | head -12
done
