"""GC cycle shapes, derived from the transition system TLC emitted for a bounded instance:
every call path of at most `maxlen` calls that starts in the empty graph, performs at least
one collection and ends in a state with no group alive.  Ids are used in first-use order
(0, then 1, then 2: the model is symmetric in ids), abstract self-loops are kept only for
put (overwriting an unread datum) and add (re-adding a present vertex)."""
import json


def load_ts(path):
    states = {}
    out = {}
    init = None
    with open(path) as f:
        for line in f:
            if not line.startswith('"{'):
                continue
            v = json.loads(json.loads(line))
            pre = json.dumps(v["pre"], sort_keys=True)
            post = json.dumps(v["post"], sort_keys=True)
            for k, s in ((pre, v["pre"]), (post, v["post"])):
                if k not in states:
                    states[k] = s
            out.setdefault(pre, []).append((v["ev"], post))
            if init is None and not v["pre"]["present"] and v["pre"]["nextv"] == 0:
                init = pre
    return states, out, init


def ids_of(ev):
    return [ev[k] for k in ("v", "v1", "v2") if k in ev]


def shapes(ts_path, maxlen=6, limit=4000):
    states, out, init = load_ts(ts_path)
    res = []

    def rec(sk, path, collected, used):
        if len(res) >= limit:
            return
        s = states[sk]
        if path and collected and not s["groups"]:
            res.append(list(path))
        if len(path) >= maxlen:
            return
        for ev, pk in out.get(sk, []):
            if ev["op"] in ("next_id", "clone", "reload", "slice", "inspect"):
                continue
            if pk == sk and ev["op"] not in ("put", "add"):
                continue
            ids = ids_of(ev)
            nu = used
            okk = True
            for i in ids:
                if i > nu:
                    okk = False
                    break
                if i == nu:
                    nu += 1
            if not okk:
                continue
            p = states[pk]
            c = collected or len(p["present"]) < len(s["present"])
            # prune: a collection needs add,add,bind,put,data
            path.append(ev)
            rec(pk, path, c, nu)
            path.pop()

    rec(init, [], False, 0)
    return res


if __name__ == "__main__":
    import sys
    r = shapes(sys.argv[1], int(sys.argv[2]) if len(sys.argv) > 2 else 6)
    print(len(r))
    for p in r[:5]:
        print(p)
