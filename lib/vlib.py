"""Shared machinery of /verif/check: building the harness, running TLC, caching TLC
outputs that do not depend on /repo, judging traces, known findings, evidence."""
import hashlib, json, os, re, shutil, subprocess, sys, time

ROOT = os.path.dirname(os.path.dirname(os.path.abspath(__file__)))
SPEC = os.path.join(ROOT, "spec")
WORK = os.path.join(ROOT, "work")
CACHE = os.environ.get("VERIF_CACHE") or os.path.join(WORK, "cache")
HARNESS_DIR = os.path.join(ROOT, "harness")
HARNESS = os.path.join(HARNESS_DIR, "target", "release", "sodg-verif-harness")
EVIDENCE = os.path.join(ROOT, "evidence")
REPLAYS = os.path.join(ROOT, "replays")
KNOWN = os.path.join(ROOT, "KNOWN_FINDINGS.txt")
TLC_WORKERS = int(os.environ.get("VERIF_TLC_WORKERS", "8"))


class ToolError(Exception):
    pass


def seed():
    try:
        return int(os.environ.get("VERIF_SEED", "1"))
    except ValueError:
        return 1


def sh(cmd, cwd=None, env=None, timeout=None, check=True):
    e = dict(os.environ)
    if env:
        e.update(env)
    try:
        p = subprocess.run(cmd, cwd=cwd, env=e, timeout=timeout, stdout=subprocess.PIPE,
                           stderr=subprocess.STDOUT, text=True, errors="replace")
    except subprocess.TimeoutExpired as ex:
        raise ToolError(f"timeout after {timeout}s: {' '.join(cmd)[:200]}") from ex
    if check and p.returncode != 0:
        raise ToolError(f"command failed ({p.returncode}): {' '.join(cmd)[:300]}\n{p.stdout[-3000:]}")
    return p


class Run:
    """Scratch directory of one check run (under /verif/work, removed at exit)."""

    def __init__(self, prop):
        self.prop = prop
        self.dir = os.path.join(WORK, f"{prop}-{os.getpid()}")
        os.makedirs(self.dir, exist_ok=True)
        os.makedirs(CACHE, exist_ok=True)
        os.makedirs(EVIDENCE, exist_ok=True)
        self.t0 = time.time()
        self.n = 0

    def path(self, name):
        return os.path.join(self.dir, name)

    def fresh(self, stem, ext=""):
        self.n += 1
        return os.path.join(self.dir, f"{stem}-{self.n}{ext}")

    def cleanup(self):
        shutil.rmtree(self.dir, ignore_errors=True)


def build_harness():
    """Rebuild the harness (and sodg with the hook) from /repo's current working tree."""
    lock_src = os.path.join(os.environ.get("VERIF_REPO", "/repo"), "Cargo.lock")
    lock_dst = os.path.join(HARNESS_DIR, "Cargo.lock")
    if not os.path.exists(lock_dst):
        shutil.copy(lock_src, lock_dst)
    env = {"CARGO_NET_OFFLINE": "true"}
    p = sh(["cargo", "build", "--release", "--offline"], cwd=HARNESS_DIR, env=env, timeout=1500, check=False)
    if p.returncode != 0:
        raise ToolError("harness build failed (does /repo compile with --features verif?)\n" + p.stdout[-4000:])
    return HARNESS


def module_closure(module, seen=None):
    """the module and every local module it EXTENDS / INSTANCEs (transitively)"""
    seen = seen if seen is not None else set()
    if module in seen:
        return seen
    path = os.path.join(SPEC, module + ".tla")
    if not os.path.exists(path):
        return seen
    seen.add(module)
    text = open(path).read()
    names = set()
    for m in re.finditer(r"EXTENDS\s+([^\n]+)", text):
        names.update(x.strip() for x in m.group(1).split(","))
    for m in re.finditer(r"INSTANCE\s+(\w+)", text):
        names.add(m.group(1))
    for n in names:
        module_closure(n, seen)
    return seen


def spec_hash(module, extra=""):
    h = hashlib.sha256()
    for f in sorted(module_closure(module)):
        h.update(f.encode())
        h.update(open(os.path.join(SPEC, f + ".tla"), "rb").read())
    h.update(extra.encode())
    return h.hexdigest()[:20]


def apalache_ind(run):
    """The inductive-invariant obligations of spec/SodgInd.tla (tools/apalache_ind.sh); they do not depend on /repo, so the
    result is cached under the hash of the modules and the script.  Returns the list of obligation rows."""
    script = os.path.join(ROOT, "tools", "apalache_ind.sh")
    key = spec_hash("APA_Ind", open(script).read())
    path = os.path.join(CACHE, f"apalache-{key}.json")
    if os.path.exists(path):
        return json.load(open(path)), True
    p = sh([script, os.path.join(run.dir, "apalache")], timeout=3600, check=False)
    rows = []
    for line in p.stdout.splitlines():
        m = re.match(r"APALACHE (\S+) expected=(\S+) got=(\S+) seconds=(\S+)", line)
        if m:
            rows.append({"obligation": m.group(1), "expected": m.group(2), "got": m.group(3), "seconds": m.group(4)})
    if p.returncode != 0 or len(rows) != 6 or any(r["expected"] != r["got"] for r in rows):
        raise ToolError("Apalache: the inductive-invariant obligations of SodgInd did not come out as expected\n" + p.stdout[-2000:] + (p.stderr or "")[-1000:])
    os.makedirs(CACHE, exist_ok=True)
    tmp = path + f".{os.getpid()}.tmp"
    json.dump(rows, open(tmp, "w"))
    os.replace(tmp, path)
    return rows, False


def tlaps_ind(run):
    """The TLAPS proofs of spec/SodgIndProofs.tla (tools/tlaps_ind.sh: all obligations proved, two probes that must fail);
    independent of /repo, cached under the hash of the modules and the script."""
    script = os.path.join(ROOT, "tools", "tlaps_ind.sh")
    key = spec_hash("SodgIndProofs", open(script).read())
    path = os.path.join(CACHE, f"tlaps-{key}.json")
    if os.path.exists(path):
        return json.load(open(path)), True
    p = sh([script, os.path.join(run.dir, "tlaps")], timeout=5400, check=False)
    rows = []
    for line in p.stdout.splitlines():
        m = re.match(r"TLAPS (\S+) expected=(\S+) got=(\S+) obligations=(.*)", line)
        if m:
            rows.append({"run": m.group(1), "expected": m.group(2), "got": m.group(3), "obligations": m.group(4)})
    if p.returncode != 0 or len(rows) != 3 or any(r["expected"] != r["got"] for r in rows):
        raise ToolError("TLAPS: the proofs of SodgIndProofs did not come out as expected\n" + p.stdout[-2000:] + (p.stderr or "")[-1000:])
    os.makedirs(CACHE, exist_ok=True)
    tmp = path + f".{os.getpid()}.tmp"
    json.dump(rows, open(tmp, "w"))
    os.replace(tmp, path)
    return rows, False


TLC_STATS = re.compile(r"(\d+) states generated, (\d+) distinct states found")


def tlc(run, module, cfg_text, workers=None, timeout=900, env=None, coverage=False, extra=None, deque=False, out_file=None):
    """Run TLC on spec/<module>.tla with the given cfg text.  Returns dict(out, generated, distinct, ok)."""
    cfg = run.fresh("cfg", ".cfg")
    open(cfg, "w").write(cfg_text)
    meta = run.fresh("meta")
    cmd = ["timeout", str(timeout), "tlc", "-workers", str(workers or TLC_WORKERS), "-metadir", meta,
           "-cleanup", "-noGenerateSpecTE", "-config", cfg]
    if coverage:
        cmd += ["-coverage", "1"]
    if extra:
        cmd += extra
    cmd.append(os.path.join(SPEC, module + ".tla"))
    e = dict(env or {})
    # UTF-8: in the POSIX locale the JVM reads the trace files as ASCII and every non-ASCII character becomes "?",
    # which would make distinct Greek labels equal for the judge
    jopts = "-Xss1g -Dfile.encoding=UTF-8" + (" -Dtlc2.tool.queue.IStateQueue=StateDeque" if deque else "")
    e["JAVA_TOOL_OPTIONS"] = jopts
    if out_file:
        with open(out_file, "w") as f:
            ee = dict(os.environ)
            ee.update(e)
            p = subprocess.run(cmd, cwd=SPEC, env=ee, stdout=f, stderr=subprocess.STDOUT)
        out = tail(out_file, 6000)
        rc = p.returncode
    else:
        p = sh(cmd, cwd=SPEC, env=e, timeout=timeout + 30, check=False)
        out = p.stdout
        rc = p.returncode
    shutil.rmtree(meta, ignore_errors=True)
    m = TLC_STATS.search(out)
    res = {"out": out, "rc": rc, "generated": int(m.group(1)) if m else 0, "distinct": int(m.group(2)) if m else 0}
    if rc == 124:
        raise ToolError(f"TLC timed out on {module}")
    return res


def tail(path, nbytes):
    with open(path, "rb") as f:
        f.seek(0, 2)
        size = f.tell()
        f.seek(max(0, size - nbytes))
        return f.read().decode(errors="replace")


def action_counts(out):
    """Per-action counts from -coverage 1 output: {(module,line): (distinct?, total)}"""
    res = {}
    for m in re.finditer(r"<(\w+) line (\d+), col \d+ to line \d+, col \d+ of module (\w+)>: (\d+):(\d+)", out):
        res[m.group(1)] = (int(m.group(4)), int(m.group(5)))
    return res


def model_check(run, module, cfg_text, must_hold=True, workers=None, timeout=900, coverage=True):
    """E1.  Returns stats; raises ToolError when TLC reports an error on a spec that must hold."""
    r = tlc(run, module, cfg_text, workers=workers, timeout=timeout, coverage=coverage)
    ok = "Model checking completed. No error has been found." in r["out"]
    r["ok"] = ok
    r["actions"] = action_counts(r["out"])
    if must_hold and not ok:
        raise ToolError(f"E1: TLC found an error in {module} (the specification itself violates its property?)\n" + r["out"][-3000:])
    return r


def emit_ts(run, module, cfg_text, workers=4, timeout=1800, extra=None):
    """Emit the transition system of a bounded instance (cached: it does not depend on /repo)."""
    key = spec_hash(module, cfg_text)
    path = os.path.join(CACHE, f"ts-{key}.out")
    if os.path.exists(path) and os.path.getsize(path) > 0 and "Model checking completed" in tail(path, 4000):
        return path, True
    tmp = path + f".{os.getpid()}.tmp"
    r = tlc(run, module, cfg_text, workers=workers, timeout=timeout, out_file=tmp, extra=extra)
    if "Model checking completed. No error has been found." not in r["out"]:
        try:
            os.remove(tmp)
        except OSError:
            pass
        raise ToolError(f"emission of {module} failed\n" + r["out"][-3000:])
    os.replace(tmp, path)
    return path, False


def product(run, ts_paths, tokens, n, cap, observers=(), budget=3000000, per_sig=12, max_wit=240, timeout=3000):
    out = run.fresh("prod", ".json")
    wit = run.fresh("wit", ".ndjson")
    cmd = [HARNESS, "product", "--ts"] + list(ts_paths) + ["--tokens", json.dumps(tokens), "--n", str(n), "--cap", str(cap),
           "--scratch", run.dir, "--budget", str(budget), "--witness-out", wit, "--out", out,
           "--per-sig", str(per_sig), "--max-witnesses", str(max_wit)]
    if observers:
        cmd += ["--observers"] + list(observers)
    try:
        p = sh(cmd, timeout=timeout, check=False)
        rc = p.returncode
        text = p.stdout
    except ToolError:
        rc, text = 124, "timeout"
    if rc != 0:
        # a read-only observer killed the process (stack overflow in inspect) or hung: the progress file names the call
        prog = [f for f in os.listdir(run.dir) if f.startswith("progress-")]
        if "inspect" in observers or any(o == "debug" for o in observers):
            if prog:
                pj = json.load(open(os.path.join(run.dir, prog[0])))
                for f in prog:
                    os.remove(os.path.join(run.dir, f))
                return {"crashed": True, "rc": rc, "progress": pj}
        raise ToolError(f"harness product failed (rc={rc}): " + text[-3000:])
    for f in os.listdir(run.dir):
        if f.startswith("progress-"):
            os.remove(os.path.join(run.dir, f))
    j = json.load(open(out))
    j["witness_file"] = wit
    return j


VERDICT = re.compile(r'^<<"VERDICT", (".*")>>$', re.M)


def judge(run, trace_file, maxn, timeout=1800):
    """Run Trace.tla on a trace file.  Returns dict(fails=[[t,line,prop,what]], lines=int)."""
    with open(trace_file, "rb") as f:
        f.seek(0, 2)
        if f.tell() == 0:
            return {"fails": [], "lines": 0, "voids": []}
    # make sure the file ends with the end marker
    last = tail(trace_file, 200).strip().splitlines()[-1]
    if '"op":"end"' not in last.replace(" ", ""):
        with open(trace_file, "a") as f:
            f.write('{"op":"end","t":0,"h":0}\n')
    cfg = f"""SPECIFICATION TSpec
CONSTANTS MaxN = {maxn} MaxGroups = 14 MaxGroupSize = 16
POSTCONDITION Accepted
CHECK_DEADLOCK FALSE
"""
    r = tlc(run, "Trace", cfg, workers=1, timeout=timeout, env={"TRACE": trace_file}, deque=True)
    m = VERDICT.search(r["out"])
    if not m or "Model checking completed. No error has been found." not in r["out"]:
        raise ToolError("trace judge did not finish (malformed trace or spec error)\n" + r["out"][-3000:])
    v = json.loads(json.loads(m.group(1)))
    v["events"] = r["distinct"] - 1
    return v


def split_traces(trace_file):
    """trace id -> list of (line number, event) ; line numbers are 1-based"""
    res = {}
    with open(trace_file) as f:
        for i, line in enumerate(f, 1):
            line = line.strip()
            if not line:
                continue
            e = json.loads(line)
            res.setdefault(e.get("t", 0), []).append((i, e))
    return res


def trace_stats(trace_file):
    ops = {}
    coll = 0
    maxalive = 0
    maxgroups = 0
    maxgroup = 0
    traces = 0
    prev = {}
    with open(trace_file) as f:
        for line in f:
            e = json.loads(line)
            op = e["op"]
            if op == "reset":
                traces += 1
                prev = {}
                continue
            if op == "end":
                continue
            ops[op] = ops.get(op, 0) + 1
            for o in e.get("obs", []):
                if "alive" not in o:
                    continue
                a = set(o["alive"])
                h = o["h"]
                if h in prev and not prev[h] <= a and h == e.get("h"):
                    coll += 1
                prev[h] = a
                maxalive = max(maxalive, len(a))
                maxgroups = max(maxgroups, len(o["groups"]))
                for g in o["groups"]:
                    maxgroup = max(maxgroup, len(g))
    return {"traces": traces, "ops": ops, "collections": coll, "max_alive": maxalive,
            "max_groups_alive": maxgroups, "max_group_size": maxgroup}


# ---------------------------------------------------------------- known findings
def known_findings():
    """lines 'known: property=Cxx key=<key> <text>' are suppressed findings; 'fixed:' lines suppress nothing"""
    res = []
    if os.path.exists(KNOWN):
        for line in open(KNOWN):
            line = line.strip()
            m = re.match(r"known:\s+property=(C\d+)\s+key=(\S+)\s+(.*)", line)
            if m:
                res.append({"property": m.group(1), "key": m.group(2), "text": m.group(3)})
    return res


# ---------------------------------------------------------------- evidence / verdict
def write_evidence(prop, tier, level, coverage, assumptions, wall, violations):
    ev = {"property_id": prop, "tier": tier, "seed": seed(), "level": level, "coverage": coverage,
          "assumptions": assumptions, "wall_s": round(wall, 2), "violations": violations}
    os.makedirs(EVIDENCE, exist_ok=True)
    tmp = os.path.join(EVIDENCE, f".{prop}.{os.getpid()}.tmp")
    json.dump(ev, open(tmp, "w"), indent=1, ensure_ascii=False)
    os.replace(tmp, os.path.join(EVIDENCE, f"{prop}.json"))


def save_replay(prop, name, obj):
    os.makedirs(REPLAYS, exist_ok=True)
    p = os.path.join(REPLAYS, f"{prop}-{name}.json")
    json.dump(obj, open(p, "w"), indent=1, ensure_ascii=False)
    return p


def merge_run(run, vec_paths, tokens, n, cap, stride=1, offset=0, timeout=3000):
    out = run.fresh("merge", ".json")
    wit = run.fresh("mwit", ".ndjson")
    cmd = [HARNESS, "merge", "--vectors"] + list(vec_paths) + ["--tokens", json.dumps(tokens), "--n", str(n), "--cap", str(cap),
           "--scratch", run.dir, "--witness-out", wit, "--out", out, "--stride", str(stride), "--offset", str(offset)]
    p = sh(cmd, timeout=timeout, check=False)
    if p.returncode != 0:
        raise ToolError("harness merge failed: " + p.stdout[-3000:])
    j = json.load(open(out))
    j["witness_file"] = wit
    return j


HEXVERDICT = re.compile(r'^<<"HEXVERDICT", (".*")>>$', re.M)


def hex_judge(run, obs_file):
    r = tlc(run, "HexJudge", "INIT Init\nNEXT Next\nCHECK_DEADLOCK FALSE\n", workers=1, timeout=900, env={"OBS": obs_file})
    m = HEXVERDICT.search(r["out"])
    if not m:
        raise ToolError("HexJudge did not produce a verdict\n" + r["out"][-3000:])
    return json.loads(json.loads(m.group(1)))


def obs_judge(run, module, marker, obs_file):
    r = tlc(run, module, "INIT Init\nNEXT Next\nCHECK_DEADLOCK FALSE\n", workers=1, timeout=900, env={"OBS": obs_file})
    m = re.search(r'^<<"%s", (".*")>>$' % marker, r["out"], re.M)
    if not m:
        raise ToolError(module + " did not produce a verdict\n" + r["out"][-3000:])
    return json.loads(json.loads(m.group(1)))


def script_run(run, vec_paths, n, cap, stride=1, offset=0, timeout=3000):
    out = run.fresh("script", ".json")
    wit = run.fresh("swit", ".ndjson")
    cmd = [HARNESS, "scriptvec", "--vectors"] + list(vec_paths) + ["--n", str(n), "--cap", str(cap), "--scratch", run.dir,
           "--witness-out", wit, "--out", out, "--stride", str(stride), "--offset", str(offset)]
    p = sh(cmd, timeout=timeout, check=False)
    if p.returncode != 0:
        raise ToolError("harness scriptvec failed: " + p.stdout[-3000:])
    j = json.load(open(out))
    j["witness_file"] = wit
    return j


def truncate_run(run, ts_path, tokens, n, cap, max_images, extra_calls=None, timeout=3000):
    out = run.fresh("trunc", ".json")
    wit = run.fresh("twit", ".ndjson")
    cmd = [HARNESS, "truncate", "--ts", ts_path, "--tokens", json.dumps(tokens), "--n", str(n), "--cap", str(cap), "--scratch", run.dir,
           "--witness-out", wit, "--out", out, "--max-images", str(max_images)]
    if extra_calls:
        ep = run.fresh("extra", ".json")
        json.dump(extra_calls, open(ep, "w"))
        cmd += ["--extra", ep]
    p = sh(cmd, timeout=timeout, check=False)
    if p.returncode != 0:
        raise ToolError("harness truncate failed: " + p.stdout[-3000:])
    j = json.load(open(out))
    j["witness_file"] = wit
    return j


HARNESS_ASAN = os.path.join(HARNESS_DIR, "target-asan", "x86_64-unknown-linux-gnu", "release", "sodg-verif-harness")


def build_harness_asan():
    """the same harness (and sodg) built with AddressSanitizer on the nightly toolchain, debug assertions on"""
    env = {"CARGO_NET_OFFLINE": "true", "RUSTFLAGS": "-Zsanitizer=address"}
    p = sh(["cargo", "+nightly", "build", "--release", "--offline", "--target", "x86_64-unknown-linux-gnu", "--target-dir", "target-asan"],
           cwd=HARNESS_DIR, env=env, timeout=2400, check=False)
    if p.returncode != 0:
        raise ToolError("ASan harness build failed\n" + p.stdout[-4000:])
    return HARNESS_ASAN
