"""Per-property plans: which engines run, on which instances, and how the verdict is formed."""
import json, os, time
import vlib
from vlib import ToolError
import shapes as shapes_mod

H = vlib.HARNESS

# ----------------------------------------------------------------------------- instances
# bounded instances of Sodg.tla (exhaustive, unbounded depth).  MaxGroups/MaxGroupSize are the
# real ones unless scaled.
INST = {
    "A3": dict(Cap=3, Labels=["a"], Vals=["x"], MaxN=1),             # 4,360 states / 62,643 transitions
    "B3": dict(Cap=3, Labels=["a"], Vals=["x", "y"], MaxN=1),        # overwrite with a different value
    "C2": dict(Cap=2, Labels=["a", "b"], Vals=["x", "y"], MaxN=2),   # two labels, two values
    "D3": dict(Cap=3, Labels=["a", "b"], Vals=["x"], MaxN=1),        # N+1st label guard reachable
    "E3": dict(Cap=3, Labels=["a", "b"], Vals=["x"], MaxN=2),        # 247,792 states / 5.6 M transitions
    "S3": dict(Cap=3, Labels=["a"], Vals=["x"], MaxN=1, MaxGroups=1, MaxGroupSize=2),  # scaled limits
    # restricted alphabets (SodgR.tla): two/three groups alive, cross-group edges, slot recycling
    "F4a": dict(Cap=4, Labels=["a"], Vals=["x"], MaxN=1, R=dict(BindPairs=[1, 2, 3, 12, 13, 23, 10, 32], PutIds=[1, 3], DataIds=[1, 3], AddIds=[0, 1, 2, 3])),
    "F4b": dict(Cap=4, Labels=["a", "b"], Vals=["x"], MaxN=2, R=dict(BindPairs=[1, 23, 2, 31], PutIds=[1, 3], DataIds=[1, 3], AddIds=[0, 1, 2, 3])),
    "F4c": dict(Cap=4, Labels=["a"], Vals=["x"], MaxN=1, R=dict(BindPairs=[1, 2, 3, 12, 13, 23, 10, 32, 20, 21, 30, 31], PutIds=[0, 1, 2, 3], DataIds=[0, 1, 2, 3], AddIds=[0, 1, 2, 3])),
    "F5": dict(Cap=5, Labels=["a"], Vals=["x"], MaxN=1, R=dict(BindPairs=[1, 23, 2, 31, 4, 34], PutIds=[1, 3, 4], DataIds=[1, 3, 4], AddIds=[0, 1, 2, 3, 4])),
    # slices: two labels, N=2, cycles / shared targets / two paths to one vertex; no data (no dangling edges)
    "G3": dict(Cap=3, Labels=["a", "b"], Vals=["x"], MaxN=2, R=dict(BindPairs=[1, 2, 12, 20, 10], PutIds=[], DataIds=[], AddIds=[0, 1, 2])),
    "G3p": dict(Cap=3, Labels=["a", "b"], Vals=["x"], MaxN=2, R=dict(BindPairs=[1, 2, 12, 20, 10], PutIds=[2], DataIds=[2], AddIds=[0, 1, 2])),
    "G4": dict(Cap=4, Labels=["a", "b"], Vals=["x"], MaxN=2, R=dict(BindPairs=[1, 2, 12, 13, 23, 30], PutIds=[], DataIds=[], AddIds=[0, 1, 2, 3])),
    "S4": dict(Cap=4, Labels=["a"], Vals=["x"], MaxN=1, MaxGroups=1, MaxGroupSize=3, R=dict(BindPairs=[1, 23, 2, 31, 12], PutIds=[1, 3], DataIds=[1, 3], AddIds=[0, 1, 2, 3])),
}
# token -> concrete value maps, rotated over the label variants and the 8-byte boundary
TOKENS = [
    {"labels": {"a": "α0", "b": "foo"}, "vals": {"x": "01-02-03", "y": "10-11-12-13-14-15-16-17-18-19-1A-1B"}},
    {"labels": {"a": "ρ", "b": "α12"}, "vals": {"x": "00-01-02-03-04-05-06-07-08", "y": "--"}},
    {"labels": {"a": "hello", "b": "𝜑"}, "vals": {"x": "FF-00-FF-00-FF-00-FF-00", "y": "07"}},
    # label values at the edge of the text form (a blank inside / eight digits), for clone and save+load
    {"labels": {"a": "~s:a b", "b": "ab"}, "vals": {"x": "00-01-02-03-04-05-06-07-08-09", "y": "--"}},
    {"labels": {"a": "α12345678", "b": "~s:z"}, "vals": {"x": "AA", "y": "01-02-03-04-05-06-07-08-09"}},
    # labels at the eight-character limit, a seven-digit index
    {"labels": {"a": "abcdefgh", "b": "abcdefg"}, "vals": {"x": "01-02-03-04-05-06-07-08", "y": "00"}},
    {"labels": {"a": "α1234567", "b": "€uro€uro"}, "vals": {"x": "00-00", "y": "FF"}},
    # 7..10 CONFUSABLE values: distinct labels / byte strings that a coarser reading identifies (look-alike characters, letter
    # case; +0.0 / -0.0 and two NaNs as f64, a leading / trailing zero byte); on two-label two-value instances both labels sit
    # on one vertex and one value overwrites the other, read or unread
    {"labels": {"a": "Δ", "b": "∆"}, "vals": {"x": "00-00-00-00-00-00-00-00", "y": "80-00-00-00-00-00-00-00"}},
    {"labels": {"a": "φ", "b": "ϕ"}, "vals": {"x": "7F-F8-00-00-00-00-00-00", "y": "7F-F8-00-00-00-00-00-01"}},
    {"labels": {"a": "foo", "b": "Foo"}, "vals": {"x": "00-01", "y": "01"}},
    {"labels": {"a": "µ", "b": "μ"}, "vals": {"x": "01-00", "y": "01"}},
    # 11: the heap representation asked for whatever the length (Hex::Vector is public): an empty and a short Vector
    {"labels": {"a": "ab", "b": "aB"}, "vals": {"x": "--~v", "y": "07-18-29~v"}},
]


def tla_set(xs):
    return "{" + ", ".join('"%s"' % x for x in xs) + "}"


def consts(inst, extra=""):
    c = INST[inst] if isinstance(inst, str) else inst
    return ("CONSTANTS Cap = %d Labels = %s Vals = %s MaxN = %d MaxGroups = %d MaxGroupSize = %d %s\n"
            % (c["Cap"], tla_set(c["Labels"]), tla_set(c["Vals"]), c["MaxN"], c.get("MaxGroups", 14),
               c.get("MaxGroupSize", 16), extra))


def cfg_mc(inst, spec="Spec", view="view", invariants=(), properties=(), extra_consts=""):
    s = f"SPECIFICATION {spec}\nVIEW {view}\n" + consts(inst, extra_consts)
    for i in invariants:
        s += f"INVARIANT {i}\n"
    for p in properties:
        s += f"PROPERTY {p}\n"
    return s + "CHECK_DEADLOCK FALSE\n"


def int_set(xs):
    return "{" + ", ".join(str(x) for x in xs) + "}"


def r_consts(inst):
    c = INST[inst] if isinstance(inst, str) else inst
    r = c.get("R")
    if not r:
        return ""
    return (" BindPairs = %s PutIds = %s DataIds = %s AddIds = %s WithNextId = %s"
            % (int_set(r["BindPairs"]), int_set(r["PutIds"]), int_set(r["DataIds"]), int_set(r["AddIds"]),
               "TRUE" if r.get("WithNextId") else "FALSE"))


def emit_module(inst):
    c = INST[inst] if isinstance(inst, str) else inst
    return "SodgR" if c.get("R") else "SodgX"


def cfg_emit(inst, extra_ops=()):
    nxt = ("NextR2" if "slice" in extra_ops else "NextR3" if "inspect" in extra_ops else "NextR4" if "deploy" in extra_ops else "NextR") if emit_module(inst) == "SodgR" else "NextX"
    return (f"INIT Init\nNEXT {nxt}\nVIEW view\nACTION_CONSTRAINT Emit\n"
            + consts(inst, "Extra = " + tla_set(extra_ops) + r_consts(inst)) + "CHECK_DEADLOCK FALSE\n")


SODG_PROPS = ["ShrinkOnlyByFirstRead", "DiesExactlyThen", "GroupRules", "OthersUntouched", "ReadBack", "AddBlankOrNothing"]


class Acc:
    """Accumulates what a check covered."""

    def __init__(self):
        self.states = 0
        self.transitions = 0
        self.traces = 0
        self.fails = []          # dicts: prop, what, source, calls(n,cap,calls), line
        self.notes = {}
        self.samples = []
        self.e1 = []
        self.e2 = []
        self.e3 = []
        self.known = []
        self.vacuity = []        # coverage guards that did not come true (decided in finish())

    def add_e1(self, name, r, expect_error=False):
        self.states += r["distinct"]
        self.transitions += r["generated"]
        self.e1.append({"model": name, "distinct_states": r["distinct"], "states_generated": r["generated"],
                        "result": "no error" if r.get("ok") else ("error found (expected)" if expect_error else "error"),
                        "actions_taken": {k: v[1] for k, v in r.get("actions", {}).items()}})


def e1_sodg(run, acc, inst="A3", extra_props=()):
    r = vlib.model_check(run, "Sodg", cfg_mc(inst, invariants=["TypeOK", "CanAlwaysGroup", "Recoverable"], properties=SODG_PROPS + list(extra_props)))
    acc.add_e1(f"Sodg[{inst}]", r)
    need = {"Add", "Bind", "Put", "Data", "NextId"}
    missing = [a for a in need if r["actions"].get(a, (0, 0))[1] == 0]
    if missing:
        raise ToolError(f"vacuity: actions never taken in Sodg[{inst}]: {missing}")
    return r


def e1_safe(run, acc, inst="A3"):
    r = vlib.model_check(run, "MC_Safe", cfg_mc(inst, spec="HSpec", view="hview", invariants=["TypeOK", "GroupsAreLinked"], properties=["RefinesSafe"]))
    acc.add_e1(f"MC_Safe[{inst}] (Sodg refines SodgSafe)", r)


def e1_safe_r(run, acc, inst):
    """the same refinement on a restricted alphabet (several groups, cross-group edges: link classes larger than groups)"""
    cfg = (f"SPECIFICATION HSpec\nVIEW hview\n" + consts(inst, "Extra = {}" + r_consts(inst))
           + "INVARIANT TypeOK\nINVARIANT GroupsAreLinked\nPROPERTY RefinesSafe\nCHECK_DEADLOCK FALSE\n")
    r = vlib.model_check(run, "MC_SafeR", cfg)
    acc.add_e1(f"MC_SafeR[{inst}] (Sodg on a restricted alphabet refines SodgSafe)", r)


def cfg_impl(rules, cap=3, nslots=4, slotsize=3, labels=("a",), vals=("x",), maxn=1):
    return (f"SPECIFICATION ISpec\nVIEW iview\nCONSTANTS Cap = {cap} Labels = {tla_set(labels)} Vals = {tla_set(vals)} MaxN = {maxn} "
            f"NSlots = {nslots} SlotSize = {slotsize} Rules = \"{rules}\"\n"
            "INVARIANT NoPanic\nINVARIANT CounterIsRecount\nINVARIANT TagsMatchLists\nINVARIANT ReservedKept\n"
            "INVARIANT OccupiedIsGroups\nINVARIANT NoDuplicateMembers\nINVARIANT ImplRecoverable\nPROPERTY RefinesSodg\nCHECK_DEADLOCK FALSE\n")


def e1_ind(run, acc):
    """the inductive invariant: TLC ties SodgImpl to SodgInd, Apalache (fixed sizes) and TLAPS (all sizes) show it inductive"""
    # SodgImpl refines SodgInd (member lists as sets), whose invariant Apalache shows to be INDUCTIVE at 6 ids / 3 usable slots of 4:
    # counter = recount, tags = lists, reserved lists kept, no underflow, and "vertices die only by the read of the last unread datum
    # of their whole group" hold from every state satisfying the invariant, reachable within TLC's bounds or not
    ri = vlib.model_check(run, "MC_ImplInd", cfg_impl("fixed").replace("PROPERTY RefinesSodg", "INVARIANT IndInvHolds\nPROPERTY RefinesInd"))
    acc.add_e1("MC_ImplInd[fixed, 3 ids] (SodgImpl refines SodgInd)", ri)
    rows, cached = vlib.apalache_ind(run)
    acc.e1.append({"model": "SodgInd via APA_Ind[6 ids, 5 slots of 4], Apalache 0.58 (symbolic): Init => IndInv; IndInv /\\ Next => IndInv'; "
                            "IndInv /\\ Next => DiesOnlyByLastRead; IndInv => NoUnderflow; two probes that must be violated",
                   "obligations": rows, "from_cache": cached})
    # ... and TLAPS proves them for ALL sizes (SodgIndProofs.tla: Spec => [](tags = lists /\ counter = recount), no underflow,
    # vertices die only in data() as one whole member list that held exactly one unread datum, and conversely)
    trows, tcached = vlib.tlaps_ind(run)
    acc.e1.append({"model": "SodgIndProofs.tla, TLAPS (tlapm 1.6): TInvAlways, CInvAlways, NoUnderflowT, DiesAsAWholeList, ExactDeath for all "
                            "capacities / slot counts / slot sizes; two probes whose proofs must fail",
                   "runs": trows, "from_cache": tcached})


def e1_impl(run, acc, tier):
    r = vlib.model_check(run, "SodgImpl", cfg_impl("fixed"))
    acc.add_e1("SodgImpl[fixed, 3 ids, 2 usable slots of 3] refines Sodg", r)
    # the rules of the pinned tree must be REJECTED by the same model (non-vacuity of the refinement check)
    r2 = vlib.model_check(run, "SodgImpl", cfg_impl("tree"), must_hold=False, coverage=False)
    if r2["ok"]:
        raise ToolError("vacuity: SodgImpl with the pinned tree's rules was accepted; the refinement check is not discriminating")
    acc.add_e1("SodgImpl[tree rules] (must be rejected)", r2, expect_error=True)
    # five ids on a restricted alphabet, two usable slots of three: more groups wanted than slots exist, slots are re-used
    cfg_r = ("SPECIFICATION ISpecR\nVIEW iview\nCONSTANTS Cap = 5 Labels = {\"a\"} Vals = {\"x\"} MaxN = 1 NSlots = 4 SlotSize = 3 Rules = \"fixed\"\n"
             " BindPairs = {1, 23, 2, 31, 4, 34} PutIds = {1, 3, 4} DataIds = {1, 3, 4} AddIds = {0, 1, 2, 3, 4}\n"
             "INVARIANT NoPanic\nINVARIANT CounterIsRecount\nINVARIANT TagsMatchLists\nINVARIANT ReservedKept\nINVARIANT OccupiedIsGroups\n"
             "INVARIANT NoDuplicateMembers\nPROPERTY RefinesSodg\nCHECK_DEADLOCK FALSE\n")
    rr = vlib.model_check(run, "MC_ImplR", cfg_r)
    acc.add_e1("MC_ImplR[fixed, 5 ids restricted, 2 usable slots of 3] refines Sodg", rr)
    e1_ind(run, acc)
    if tier == "thorough":
        # (the full alphabet over 4 ids is 95 M transitions, 22 minutes on 8 idle cores, and timed out on a loaded machine: a check
        # that can time out is worth nothing, so the deeper instance is a restricted alphabet too: 5 ids, 8 bind pairs, 3 usable slots)
        cfg_r3 = ("SPECIFICATION ISpecR\nVIEW iview\nCONSTANTS Cap = 5 Labels = {\"a\"} Vals = {\"x\"} MaxN = 1 NSlots = 5 SlotSize = 3 Rules = \"fixed\"\n"
                  " BindPairs = {1, 23, 2, 31, 4, 34, 12, 40} PutIds = {0, 1, 3, 4} DataIds = {0, 1, 3, 4} AddIds = {0, 1, 2, 3, 4}\n"
                  "INVARIANT NoPanic\nINVARIANT CounterIsRecount\nINVARIANT TagsMatchLists\nINVARIANT ReservedKept\nINVARIANT OccupiedIsGroups\n"
                  "INVARIANT NoDuplicateMembers\nPROPERTY RefinesSodg\nCHECK_DEADLOCK FALSE\n")
        r3 = vlib.model_check(run, "MC_ImplR", cfg_r3, timeout=3000)
        acc.add_e1("MC_ImplR[fixed, 5 ids, 8 bind pairs, 3 usable slots of 3] refines Sodg", r3)
        # the real constants (16 member lists of 16, capacity 40) cannot be explored exhaustively: random simulation, invariants only
        cfg = ("SPECIFICATION ISpec\nCONSTANTS Cap = 40 Labels = {\"a\", \"b\", \"c\"} Vals = {\"x\", \"y\"} MaxN = 2 NSlots = 16 SlotSize = 16 Rules = \"fixed\"\n"
               "INVARIANT NoPanic\nINVARIANT CounterIsRecount\nINVARIANT TagsMatchLists\nINVARIANT ReservedKept\nINVARIANT OccupiedIsGroups\nINVARIANT NoDuplicateMembers\nCHECK_DEADLOCK FALSE\n")
        r4 = vlib.tlc(run, "SodgImpl", cfg, workers=4, timeout=1500, extra=["-simulate", "num=300", "-depth", "600", "-seed", str(vlib.seed())])
        import re as _re
        m = _re.search(r"The number of states generated: (\d+)", r4["out"])
        if "violated" in r4["out"] or "Error:" in r4["out"] or not m:
            raise ToolError("SodgImpl simulation at the real constants failed\n" + r4["out"][-2000:])
        acc.e1.append({"model": "SodgImpl[fixed, real constants 16x16, capacity 40] random simulation, invariants only", "states_generated": int(m.group(1)),
                       "result": "no invariant violated"})
        acc.transitions += int(m.group(1))


# ----------------------------------------------------------------------------- E2
def e2_product(run, acc, inst, cfgs, extra_ops=(), observers=(), budget=3000000, need_gc=True):
    ts, cached = vlib.emit_ts(run, emit_module(inst), cfg_emit(inst, extra_ops))
    for (n, cap, tok) in cfgs:
        j = vlib.product(run, [ts], TOKENS[tok], n, cap, observers=tuple(observers) + (("inspect",) if "inspect" in extra_ops else ()), budget=budget)
        if j.get("crashed"):
            pj = j["progress"]
            acc.fails.append({"prop": "C20", "what": f"{pj['observer']} did not terminate normally (harness process ended with status {j['rc']}: stack overflow or hang)",
                              "source": f"E2 product {inst} N={n} cap={cap}", "replay": {"n": n, "cap": cap, "calls": pj["calls"], "observer": pj["observer"]}, "sig": "crash"})
            acc.e2.append({"instance": inst, "n": n, "cap": cap, "crashed": True})
            continue
        acc.states += j["product_states"]
        acc.transitions += j["executions"]
        rec = {k: j[k] for k in ("n", "cap", "spec_states", "spec_transitions", "executions", "product_states", "closed",
                                  "mismatching_transitions", "latent_only", "by_signature", "impl_invariant_violations",
                                  "max_depth", "collecting_transitions_executed", "ops", "observer_checks", "observer_failures")}
        rec["instance"] = inst if isinstance(inst, str) else "custom"
        rec["tokens"] = TOKENS[tok]
        acc.e2.append(rec)
        if j["samples"]:
            acc.samples.append({"engine": "E2", "instance": rec["instance"], "n": n, "cap": cap, "path": j["samples"][-1]})
        if need_gc and j["collecting_transitions_executed"] == 0:
            acc.vacuity.append(f"no collecting transition executed in instance {inst}")
        if j["witnesses"]:
            v = vlib.judge(run, j["witness_file"], n)
            acc.traces += len(j["witnesses"])
            wit = {w["t"]: w for w in j["witnesses"]}
            for (t, line, prop, what) in v["fails"]:
                w = wit.get(t)
                acc.fails.append({"prop": prop, "what": what, "source": f"E2 product {rec['instance']} N={n} cap={cap}",
                                  "replay": {"n": n, "cap": cap, "calls": w["calls"]} if w else None,
                                  "sig": w["sig"] if w else ""})
            rec["witnesses_judged"] = len(j["witnesses"])
            rec["witness_verdicts"] = sorted({f[2] for f in v["fails"]})
        if not j["closed"] and j["mismatching_transitions"] == 0:
            # more product states than the budget although every executed transition matched: on correct code the product of
            # this instance closes, so the representation keeps drifting without an observable effect yet (no alarm on its
            # own, section 4 rule 5); recorded, and the traces at the real limits go on
            acc.notes.setdefault("products_not_closed_within_budget", []).append(rec["instance"])
    return ts


# ----------------------------------------------------------------------------- E3
OBSERVER_OPS = ("xml", "dot", "debug", "display", "vprint", "inspect", "truncload")


def calls_of_trace(events):
    calls = []
    for (_, e) in events:
        if e["op"] in ("reset", "end") or e["op"] in OBSERVER_OPS:
            continue
        c = {k: v for k, v in e.items() if k not in ("obs", "ret", "panic", "same", "t", "msg", "missed", "direct", "mirror")}
        if e.get("mirror"):
            c["mirror"] = True
        calls.append(c)
    return calls


def e3_drive(run, acc, plan, shapes=None, label="E3"):
    """plan: list of dicts(profile,n,cap,steps,seed,window[,reps]); traces are grouped by N for judging"""
    by_n = {}
    for p in plan:
        by_n.setdefault(p["n"], []).append(p)
    tid0 = 1
    for n, ps in sorted(by_n.items()):
        out = run.fresh("trace", ".ndjson")
        cmd = [H, "drive", "--out", out, "--scratch", run.dir, "--plan", json.dumps(ps), "--first-tid", str(tid0)]
        if shapes:
            sp = run.fresh("shapes", ".json")
            json.dump(shapes, open(sp, "w"))
            cmd += ["--shapes", sp]
        try:
            p = vlib.sh(cmd, timeout=3000, check=False)
        except ToolError:
            # (a driver that does not come back - a call of the library that does not terminate - is treated like one that aborted)
            if acc.fails:
                acc.notes.setdefault("e3_driver_ended_abnormally", []).append({"n": n, "status": "timeout", "profiles": [q["profile"] for q in ps]})
                tid0 += len(ps)
                continue
            raise
        if p.returncode != 0:
            # the driver process ended abnormally (the library aborted it: a stack overflow in inspect(), say).  When failures of
            # this run are already on record (E2 reports such a crash with the call that was running), they stand and this group
            # of traces is skipped; otherwise it is a tool error as before
            if acc.fails:
                acc.notes.setdefault("e3_driver_ended_abnormally", []).append({"n": n, "status": p.returncode, "profiles": [q["profile"] for q in ps]})
                tid0 += len(ps)
                continue
            raise ToolError(f"command failed ({p.returncode}): {' '.join(cmd)[:300]}\n{p.stdout[-3000:]}")
        metas = json.loads(p.stdout.strip().splitlines()[-1])
        tid0 += len(ps)
        v = vlib.judge(run, out, n, timeout=3000)
        st = vlib.trace_stats(out)
        acc.traces += st["traces"]
        voids = {t: l for (t, l) in v.get("voids", [])}
        rec = {"n": n, "traces": metas, "events_judged": v["events"], "stats": st, "void_from": voids}
        acc.e3.append(rec)
        traces = None
        # the first failure of each (trace, property) is the one that counts (and bounds the work)
        firsts = {}
        for (t, line, prop, what) in sorted(v["fails"], key=lambda f: f[1]):
            firsts.setdefault((t, prop), (t, line, prop, what))
        rec["lens_failures"] = len(v["fails"])
        for (t, line, prop, what) in firsts.values():
            if traces is None:
                traces = vlib.split_traces(out)
            evs = [(ln, e) for (ln, e) in traces.get(t, []) if ln <= line]
            meta = next((m for m in metas if m["t"] == t), None) or next((m for m in metas if m["t"] == t % 1000), {})   # sub-traces: t + 1000 k
            rp = {"n": n, "cap": meta.get("cap"), "calls": calls_of_trace(evs)}
            if evs and evs[-1][1]["op"] in OBSERVER_OPS:
                rp["observer"] = evs[-1][1]["op"]
            acc.fails.append({"prop": prop, "what": what, "source": f"{label} trace profile={meta.get('profile')} seed={meta.get('seed')} N={n}",
                              "replay": rp, "sig": ""})
        if st["traces"] and not acc.samples_has("E3"):
            tr = vlib.split_traces(out)
            first = sorted(tr)[1] if len(tr) > 1 else sorted(tr)[0]
            acc.samples.append({"engine": "E3", "profile": metas[0]["profile"], "first_calls": calls_of_trace(tr[first][:12])})
    return acc


def _samples_has(self, eng):
    return any(s.get("engine") == eng for s in self.samples)


Acc.samples_has = _samples_has


def gc_plan(tier, s):
    """E3 traces at the real limits for the GC family"""
    if tier == "quick":
        return [
            dict(profile="mixed", n=2, cap=24, steps=2500, seed=s * 100 + 1, window=10),
            dict(profile="mixed", n=16, cap=256, steps=2000, seed=s * 100 + 2, window=40),
            dict(profile="groups14", n=2, cap=64, steps=1500, seed=s * 100 + 3, window=24),
            dict(profile="big16", n=16, cap=40, steps=1200, seed=s * 100 + 4, window=30),
            dict(profile="mixed", n=1, cap=8, steps=1500, seed=s * 100 + 5, window=8),
            dict(profile="pairs", n=2, cap=28, steps=500, seed=s * 100 + 6, window=28),
            dict(profile="fan", n=16, cap=64, steps=1500, seed=s * 100 + 7, window=24),          # a hub with 16 labels, 16 members
            dict(profile="high", n=16, cap=256, steps=1500, seed=s * 100 + 8, window=30),        # ids 226..255
            dict(profile="world", n=16, cap=64, steps=2500, seed=s * 100 + 9, window=11),        # twins + scripts + slices in one history
            # deterministic life-cycles AT the limits: groups of exactly 16 with 13 others alive (slots 14, 15), collection, re-creation
            dict(profile="cycle", n=2, cap=64, steps=1500, seed=s * 100 + 41, window=10),
            dict(profile="cycle", n=16, cap=256, steps=1200, seed=s * 100 + 42, window=10),
        ]
    plan = []
    k = 0
    for n in (1, 2, 3, 4, 8, 16):
        for (prof, cap, win, steps) in (("mixed", 16, 10, 6000), ("mixed", 256, 60, 6000), ("groups14", 64, 28, 5000),
                                        ("big16", 48, 36, 4000), ("mixed", 6, 6, 4000), ("fan", 64, 24, 4000), ("high", 256, 30, 4000),
                                        ("world", 64, 11, 6000), ("pairs", 28, 28, 1500), ("cycle", 64, 10, 4000), ("cycle", 200, 10, 3000)):
            k += 1
            plan.append(dict(profile=prof, n=n, cap=cap, steps=steps, seed=s * 1000 + k, window=win))
    return plan


def pump_plan(tier, s, nshapes):
    # seed % 4 selects 0, 1, 7 or 13 background groups
    base = (s * 4)
    if tier == "quick":
        return [dict(profile="pump", n=2, cap=64, steps=0, seed=base + 3, window=12),     # 13 background groups
                dict(profile="pump", n=2, cap=64, steps=0, seed=base + 0, window=12, reps=16)]
    return [dict(profile="pump", n=n, cap=96, steps=0, seed=base + k, window=16, reps=r)
            for (n, k, r) in ((2, 0, 40), (2, 1, 24), (3, 2, 16), (2, 3, 6), (16, 0, 18), (16, 3, 5))]


# ----------------------------------------------------------------------------- plans
def plan_gc(run, prop, tier):
    """C01-C06: E1 on the exact model (+ refinements), E2 closure on bounded instances, E3 at the real limits."""
    acc = Acc()
    s = vlib.seed()
    e1_sodg(run, acc, "A3")
    if prop == "C01":
        e1_ind(run, acc)
        e1_safe(run, acc, "A3")
        e1_safe_r(run, acc, "F4a")
        e1_safe_r(run, acc, "F5")
    if prop in ("C02", "C06"):
        e1_impl(run, acc, tier)
    if prop == "C03":
        e1_sodg(run, acc, "C2")
    if tier == "thorough":
        e1_sodg(run, acc, "B3")
        e1_sodg(run, acc, "D3")
        if prop == "C01":
            e1_safe(run, acc, "B3")
    # E2: every property of the family sees the same instances (a change is attributed by the lenses, not by the plan)
    ts = e2_product(run, acc, "A3", [(2, 3, 0), (1, 4, 1), (16, 256, 2)] if tier == "quick" else [(2, 3, 0), (1, 4, 1), (16, 256, 2), (3, 7, 1), (8, 64, 0)])
    e2_product(run, acc, "C2", [(2, 2, 0), (4, 9, 5)] + ([(2, 3, 7), (2, 2, 8), (16, 4, 9), (2, 3, 10), (2, 2, 11)] if prop in ("C02", "C03") or tier == "thorough" else []))
    e2_product(run, acc, "D3", [(1, 3, 2)] if tier == "quick" else [(1, 3, 2), (1, 5, 6)])
    e2_product(run, acc, "B3", [(1, 3, 1)])
    e2_product(run, acc, "F4a", [(1, 4, 1)])
    e2_product(run, acc, "F4b", [(2, 4, 0)])
    e2_product(run, acc, "F5", [(1, 5, 2)])
    if tier == "thorough":
        e2_product(run, acc, "F4c", [(1, 4, 0)], budget=40000000)
        e2_product(run, acc, "E3", [(2, 3, 0)], budget=40000000)
    # the same obligations hold on copies: clone() / save+load in the alphabet (the copy replaces the object), twins in E3
    if prop != "C05":
        e2_product(run, acc, "A3", [(2, 3, 1)], extra_ops=("clone", "reload"))
        e2_product(run, acc, "F4a", [(1, 4, 0)], extra_ops=("clone", "reload"))
    # E3
    e3_drive(run, acc, gc_plan(tier, s))
    if prop != "C05":
        tp = twin_plan(tier, s)
        e3_drive(run, acc, tp[1:3] + tp[5:6] if tier == "quick" else tp, label="E3 twins")
    if prop in ("C01", "C02", "C03"):
        # merge and slice are calls like any other for these properties (C01 names them): scenarios with reads, long traces
        e4_merge(run, acc, "trees g<=2 x h<=3, reads", cfg_mergegen(6, [0, 1], [1, 2, 3], 2, 3, 0, True), [(2, 6, 0)])
        mp = [dict(profile="merge", n=2, cap=32, steps=1200, seed=s * 100 + 31, window=12), dict(profile="slice", n=4, cap=16, steps=800, seed=s * 100 + 21, window=12)]
        e3_drive(run, acc, mp, label="E3 merges and slices")
    if prop in ("C06", "C02", "C01"):
        sh = shapes_mod.shapes(ts, 6 if tier == "quick" else 7, limit=190 if tier == "quick" else 1500)
        acc.notes["gc_cycle_shapes"] = len(sh)
        e3_drive(run, acc, pump_plan(tier, s, len(sh)), shapes=sh, label="E3 pumped cycles")
    return acc


def cfg_world(cap, labels=("a",), vals=("x",), nh=2, props=("FreshIds", "OnlyReadsShrink", "CopyIsExact", "Independent", "SliceExact",
                                                                 "MergeOnlyAdds", "MergeCarriesAll", "MergeTreeInjective"), with_file=False):
    s = (f"SPECIFICATION WSpec\nVIEW wview\nCONSTANTS Cap = {cap} Labels = {tla_set(labels)} Vals = {tla_set(vals)} NHandles = {nh} "
         f"WithFile = {'TRUE' if with_file else 'FALSE'} "
         "MaxN = 1 MaxGroups = 14 MaxGroupSize = 16\nINVARIANT WTypeOK\nINVARIANT IssuedBelowPos\n")
    for p_ in props:
        s += f"PROPERTY {p_}\n"
    return s + "CHECK_DEADLOCK FALSE\n"


def e1_world(run, acc, tier):
    r = vlib.model_check(run, "World", cfg_world(2))
    acc.add_e1("World[2 ids, 2 handles: 5 mutators + clone + save/load + slice + merge + script deployment]", r)
    need = {"WClone", "WReload", "WSlice", "WNextId", "WData", "WMerge", "WDeploy"}
    missing = [a for a in need if r["actions"].get(a, (0, 0))[1] == 0]
    if missing:
        raise ToolError(f"vacuity: World actions never taken: {missing}")
    # a merge that reports Err must exist in the instance (forest on the right), or the merge clauses say nothing
    r2 = vlib.model_check(run, "World", cfg_world(2, props=("ProbeMergeAlwaysOk",)), must_hold=False, coverage=False)
    if r2["ok"]:
        raise ToolError("vacuity: World never produced a merge that reports Err")
    acc.add_e1("World[probe: every merge reports Ok] (must be rejected)", r2, expect_error=True)
    # the checkpoint file as a snapshot in time (save now, load later: one handle, so that load() is a roll-back)
    fprops = ("FreshIds", "OnlyReadsShrink", "Independent", "FileIsSnapshot")
    r3 = vlib.model_check(run, "World", cfg_world(2, nh=1, props=fprops, with_file=True))
    acc.add_e1("World[2 ids, 1 handle + the checkpoint file: save now, load later]", r3)
    if any(r3["actions"].get(a, (0, 0))[1] == 0 for a in ("WSave", "WLoad")):
        raise ToolError("vacuity: WSave / WLoad never taken")
    r4 = vlib.model_check(run, "World", cfg_world(2, nh=1, props=("ProbeLoadChangesNothing",), with_file=True), must_hold=False, coverage=False)
    if r4["ok"]:
        raise ToolError("vacuity: no load() in World returned a graph other than the one its handle held")
    acc.add_e1("World[probe: load() changes nothing] (must be rejected)", r4, expect_error=True)


def twin_plan(tier, s):
    if tier == "quick":
        return [dict(profile="world", n=16, cap=64, steps=2500, seed=s * 100 + 14, window=11),
                dict(profile="twin", n=2, cap=24, steps=2500, seed=s * 100 + 11, window=10),
                dict(profile="twin", n=16, cap=256, steps=2000, seed=s * 100 + 12, window=30),
                dict(profile="twin", n=1, cap=12, steps=1500, seed=s * 100 + 13, window=8),
                # copies taken AT the limits (full groups, all 14 slots in use, ids beyond 128 behind empty stretches of the table)
                dict(profile="cycletwin", n=16, cap=256, steps=1600, seed=s * 100 + 15, window=10),
                dict(profile="cycletwin", n=2, cap=64, steps=1600, seed=s * 100 + 16, window=10),
                # data of 4 KiB .. 17 MiB through save+load, clone and clone_from, read on both sides
                dict(profile="bigdata", n=2, cap=16, steps=0, seed=s * 100 + 17, window=8)]
    return [dict(profile="twin", n=n, cap=cap, steps=6000, seed=s * 1000 + 50 + i, window=w)
            for i, (n, cap, w) in enumerate([(1, 12, 8), (2, 24, 10), (2, 64, 24), (3, 32, 12), (4, 40, 16), (8, 64, 20), (16, 256, 40), (16, 32, 12)])] + \
           [dict(profile="cycletwin", n=n, cap=cap, steps=5000, seed=s * 1000 + 80 + i, window=10)
            for i, (n, cap) in enumerate([(1, 64), (2, 200), (3, 46), (4, 256), (8, 130), (16, 256), (16, 64), (2, 64)])] + \
           [dict(profile="bigdata", n=n, cap=16, steps=0, seed=s * 1000 + 95 + n, window=8) for n in (1, 16)]


def plan_c05(run, prop, tier):
    acc = plan_gc(run, prop, tier)
    e1_world(run, acc, tier)
    # clones in the product: the allocator position and the issued ids must survive clone()
    e2_product(run, acc, "A3", [(2, 4, 0), (1, 3, 1)], extra_ops=("clone",))
    # scripts in the product: every program of the named family (SodgCore!ScriptFamily: variables, literals, every command
    # kind) deployed at EVERY product state - variables take their ids from an allocator in every position
    e2_product(run, acc, "A3", [(2, 3, 0)], extra_ops=("deploy",))
    e3_drive(run, acc, twin_plan(tier, vlib.seed()), label="E3 twins")
    e3_drive(run, acc, [dict(profile="script", n=2, cap=64, steps=2500, seed=vlib.seed() * 100 + 71, window=12),
                        dict(profile="merge", n=2, cap=32, steps=1200, seed=vlib.seed() * 100 + 31, window=12),
                        # wide vertices (stars of up to 8 kids) merged into graphs with vertices created explicitly above the allocator
                        dict(profile="merge", n=8, cap=48, steps=2000, seed=vlib.seed() * 100 + 34, window=24),
                        # the allocator walked through the whole id space, stepping over explicitly created vertices
                        dict(profile="alloc", n=2, cap=120, steps=1000, seed=vlib.seed() * 100 + 35, window=10),
                        dict(profile="alloc", n=1, cap=33, steps=400, seed=vlib.seed() * 100 + 36, window=10)], label="E3 scripts, merges, allocator walks")
    return acc


def plan_twin(run, prop, tier):
    """C08 (save+load) and C10 (clone): the copy replaces the object inside the product exploration (so every
    continuation the exploration knows is applied to a copy), mismatching paths are re-run side by side
    (original and copy, same calls) and judged by the mirror lens; E3 does the same on long random histories."""
    acc = Acc()
    op = "clone" if prop == "C10" else "reload"
    e1_world(run, acc, tier)
    obs = ("indep",) if prop == "C10" else ()
    e2_product(run, acc, "A3", [(2, 3, 1), (1, 4, 0), (16, 64, 2)], extra_ops=(op,), observers=obs)
    e2_product(run, acc, "C2", [(2, 2, 3), (4, 9, 4), (2, 3, 7), (2, 2, 11)], extra_ops=(op,), observers=obs)
    e2_product(run, acc, "F4a", [(1, 4, 1)], extra_ops=(op,), observers=obs)
    e2_product(run, acc, "F5", [(1, 5, 0)], extra_ops=(op,), observers=obs)
    if tier == "thorough":
        e2_product(run, acc, "B3", [(1, 3, 1)], extra_ops=(op,), observers=obs)
        e2_product(run, acc, "D3", [(1, 3, 2)], extra_ops=(op,), observers=obs)
        e2_product(run, acc, "F4b", [(2, 4, 0)], extra_ops=(op,), observers=obs)
    for r in acc.e2:
        if r["ops"].get(op, 0) == 0:
            acc.vacuity.append(f"no {op} transition executed")
    e3_drive(run, acc, twin_plan(tier, vlib.seed()), label="E3 twins")
    return acc


def slice_plan(tier, s):
    if tier == "quick":
        return [dict(profile="slice", n=4, cap=16, steps=1200, seed=s * 100 + 21, window=12),
                dict(profile="slice", n=16, cap=64, steps=1200, seed=s * 100 + 22, window=14),   # 14 ids in play: slices of exactly 14 vertices
                dict(profile="slice", n=2, cap=14, steps=1000, seed=s * 100 + 23, window=9),
                # 14 vertices from 14 different groups, all 14 groups alive (ids at the bottom / at the top of the table)
                dict(profile="slice14", n=2, cap=64, steps=0, seed=s * 100 + 24, window=28),
                dict(profile="slice14", n=1, cap=28, steps=0, seed=s * 100 + 25, window=28)]
    return [dict(profile="slice", n=n, cap=cap, steps=4000, seed=s * 1000 + 70 + i, window=w)
            for i, (n, cap, w) in enumerate([(2, 14, 9), (3, 16, 12), (4, 16, 14), (8, 32, 13), (16, 64, 14), (16, 256, 13), (1, 12, 8), (2, 20, 14)])] + \
           [dict(profile="slice14", n=n, cap=cap, steps=0, seed=s * 1000 + 60 + i, window=28) for i, (n, cap) in enumerate([(1, 28), (2, 29), (16, 256), (3, 64)])]


def plan_c13(run, prop, tier):
    acc = Acc()
    e1_world(run, acc, tier)
    e2_product(run, acc, "C2", [(2, 2, 0), (4, 6, 2)], extra_ops=("slice",))
    e2_product(run, acc, "G3", [(2, 3, 0), (16, 9, 1)], extra_ops=("slice",), need_gc=False)
    # slices of graphs with HISTORY: two groups, a cross-group edge, one group collected, its ids re-created (present, in no group)
    e2_product(run, acc, "F4a", [(1, 4, 0)], extra_ops=("slice",))
    if tier == "thorough":
        e2_product(run, acc, "G3p", [(2, 3, 2)], extra_ops=("slice",))
        e2_product(run, acc, "G4", [(2, 4, 0)], extra_ops=("slice",), budget=20000000, need_gc=False)
        e2_product(run, acc, "A3", [(1, 3, 0)], extra_ops=("slice",))
    for r in acc.e2:
        if r["ops"].get("slice", 0) == 0:
            acc.vacuity.append("no slice transition executed")
    e3_drive(run, acc, slice_plan(tier, vlib.seed()), label="E3 slices")
    return acc


def cfg_mergegen(cap, gids, hids, maxg, maxh, maxextra, withreads, maxn=2, ghosts=False):
    return ("INIT Init\nNEXT Next\nCONSTANTS Cap = %d GIds = %s HIds = %s Labels = {\"a\", \"b\"} MaxG = %d MaxH = %d MaxExtra = %d WithReads = %s WithGhosts = %s\n"
            " MaxN = %d MaxGroups = 14 MaxGroupSize = 16\nCHECK_DEADLOCK FALSE\n"
            % (cap, int_set(gids), int_set(hids), maxg, maxh, maxextra, "TRUE" if withreads else "FALSE", "TRUE" if ghosts else "FALSE", maxn))


MERGE_TOKENS = [
    {"labels": {"a": "α0", "b": "foo"}, "vals": {"x": "01-02-03"}},
    {"labels": {"a": "ρ", "b": "α1"}, "vals": {"x": "--"}},                                        # a zero-length datum
    {"labels": {"a": "x", "b": "𝜑"}, "vals": {"x": "00-01-02-03-04-05-06-07-08-09-0A-0B"}},      # heap encoding
]


def e4_merge(run, acc, name, cfg, runs, stride=1):
    path, cached = vlib.emit_ts(run, "MergeGen", cfg, workers=8, timeout=3000)
    if "CONTRACT-VIOLATION" in open(path).read(200000):
        raise ToolError("MergeGen: the model itself violates the merge contract")
    for k, (n, cap, tok) in enumerate(runs):
        j = vlib.merge_run(run, [path], MERGE_TOKENS[tok], n, cap, stride=stride, offset=k % stride)
        acc.states += j["executed"]
        acc.transitions += j["executed"] + j["stats"].get("reads", 0)
        rec = {k2: j[k2] for k2 in ("vectors", "executed", "mismatching", "by_signature", "stats", "n", "cap")}
        rec["generator"] = name
        rec["tokens"] = MERGE_TOKENS[tok]
        acc.e2.append(rec)
        if j["samples"]:
            acc.samples.append({"engine": "E2 merge scenarios", "scenario": j["samples"][0]})
        if j["executed"] == 0:
            acc.vacuity.append("no merge scenario executed")
        if j["witnesses"]:
            v = vlib.judge(run, j["witness_file"], n)
            acc.traces += len(j["witnesses"])
            wit = {w["t"]: w for w in j["witnesses"]}
            for (t, line, prop, what) in v["fails"]:
                w = wit.get(t)
                acc.fails.append({"prop": prop, "what": what, "source": f"E2 merge scenarios {name} N={n} cap={cap}",
                                  "replay": {"n": n, "cap": cap, "calls": w["calls"]} if w else None, "sig": w["sig"] if w else ""})
            rec["witnesses_judged"] = len(j["witnesses"])
            rec["witness_verdicts"] = sorted({f[2] for f in v["fails"]})


def plan_merge(run, prop, tier):
    """C11/C12: TLC enumerates every scenario (two trees + extras, data placements incl. already-read data, every `left`),
    checks the contract on the model (E1) and prints the expected result; the harness executes every scenario."""
    acc = Acc()
    # merge as an action of the multi-handle model: only adds, carries every edge and datum when Ok, Err names what was missed
    e1_world(run, acc, tier)
    if prop == "C11":
        e4_merge(run, acc, "trees g<=2 x h<=3, reads", cfg_mergegen(6, [0, 1], [1, 2, 3], 2, 3, 0, True), [(2, 6, 0), (2, 9, 1), (16, 64, 2)])
        e4_merge(run, acc, "trees g<=2 x h<=2 + extras<=2", cfg_mergegen(6, [0, 1], [0, 1, 2, 3], 2, 2, 2, False), [(2, 6, 1)], stride=3)
        # a left graph with history (a collected group whose ids the allocator hands out again) and a tight capacity
        e4_merge(run, acc, "trees g<=2 x h<=3, left graph with a collected group", cfg_mergegen(6, [0, 1], [1, 2, 3], 2, 3, 0, False, ghosts=True), [(2, 6, 2)])
        e4_merge(run, acc, "trees g<=3 x h<=3 in capacity 4 (results that just fit)", cfg_mergegen(4, [0, 1, 2], [1, 2, 3], 3, 3, 0, False), [(2, 4, 0)])
        if tier == "thorough":
            e4_merge(run, acc, "trees g<=3 x h<=3, reads", cfg_mergegen(7, [0, 1, 2], [1, 2, 3], 3, 3, 0, True), [(2, 7, 0), (3, 16, 1), (16, 256, 2)])
    else:
        e4_merge(run, acc, "trees g<=2 x h<=2 + extras<=2", cfg_mergegen(6, [0, 1], [0, 1, 2, 3], 2, 2, 2, False), [(2, 6, 0), (2, 8, 1), (16, 64, 2)])
        e4_merge(run, acc, "trees g<=2 x h<=3, reads", cfg_mergegen(6, [0, 1], [1, 2, 3], 2, 3, 0, True), [(2, 6, 2)], stride=3)
        if tier == "thorough":
            e4_merge(run, acc, "trees g<=2 x h<=3 + extras<=2", cfg_mergegen(7, [0, 1], [0, 1, 2, 3, 4], 2, 3, 2, False), [(2, 7, 0), (16, 32, 1)])
    s = vlib.seed()
    if tier == "quick":
        plan = [dict(profile="merge", n=2, cap=32, steps=1500, seed=s * 100 + 31, window=12),
                dict(profile="merge", n=16, cap=256, steps=1500, seed=s * 100 + 32, window=200),
                dict(profile="merge", n=3, cap=20, steps=1200, seed=s * 100 + 33, window=9),
                dict(profile="merge", n=2, cap=24, steps=1000, seed=s * 100 + 37, window=24),      # ids up to the very last slot
                dict(profile="merge", n=4, cap=64, steps=1500, seed=s * 100 + 38, window=64)]      # many multi-group / full-group trees
    else:
        plan = [dict(profile="merge", n=n, cap=cap, steps=5000, seed=s * 1000 + 90 + i, window=w)
                for i, (n, cap, w) in enumerate([(1, 16, 8), (2, 32, 12), (3, 20, 9), (4, 64, 40), (8, 128, 100), (16, 256, 200), (16, 24, 14)])]
    e3_drive(run, acc, plan, label="E3 merges")
    return acc


def hexgen_cfg(maxlen, maxidx, mode, tier):
    # longer byte strings around powers of two (chunked loops, length fields of one byte, ...), indices at the edges only
    longs = "{15, 16, 17, 23, 24, 25, 26, 31, 32, 33, 40, 41, 63, 64, 65, 127, 128, 129, 255, 256, 257, 4097}" if tier == "quick" else \
            "{23, 24, 25, 26, 31, 32, 33, 40, 41, 48, 63, 64, 65, 127, 128, 129, 255, 256, 257, 511, 512, 513, 1000, 1023, 1024, 1025, 4095, 4096, 4097, 5000, 8193}"
    return (f"INIT Init\nNEXT Next\nCONSTANTS MaxLen = {maxlen} MaxIdx = {maxidx} Mode = \"{mode}\" LongLens = {longs}\nCHECK_DEADLOCK FALSE\n")


def plan_hex(run, prop, tier):
    """C15 / C16: HexGen.tla enumerates the bounded input space with the expected outcome of every case; the harness runs
    every case on the real Hex in each representation (from_slice, from_vec, hand-built Vector, hand-built Bytes with junk
    padding); outcomes that differ are judged by HexJudge.tla (violation, or the recorded known finding D6)."""
    acc = Acc()
    mode = "access" if prop == "C15" else "concat"
    maxlen, maxidx = (11, 12) if tier == "quick" else (17, 19)
    cfg = hexgen_cfg(maxlen, maxidx, mode, tier)
    path, cached = vlib.emit_ts(run, "HexGen", cfg)
    obs = run.fresh("hexobs", ".ndjson")
    p = vlib.sh([H, "hexvec", "--vectors", path, "--obs-out", obs], timeout=3000)
    j = json.loads(p.stdout.strip().splitlines()[-1])
    if j["oracle_disagreements"]:
        raise ToolError("Hex.tla disagrees with std's slice semantics (transcription error in the specification): " + p.stdout[-2000:])
    if j["vectors"] == 0 or (prop == "C15" and j["expected_panics"] == 0):
        raise ToolError("vacuity: no vectors / no panicking case enumerated")
    acc.states = j["vectors"]
    acc.transitions = j["evaluations"]
    acc.notes["evaluations"] = j["evaluations"]
    acc.notes["distinct_nontrivial"] = j["vectors"]
    acc.notes["rule"] = ("one case per (byte string, operation, index/range/operand) enumerated by TLC from HexGen.tla; every case is "
                         "distinct by construction; evaluations = cases x representations (x representation pairs for concat)")
    acc.notes["vectors_by_operation"] = j["by_op"]
    acc.notes["expected_panics"] = j["expected_panics"]
    acc.notes["outcomes_differing_from_the_specification"] = j["mismatches"]
    acc.notes["exhaustive"] = True
    acc.samples = j["samples"]
    if j["mismatches"]:
        verdicts = vlib.hex_judge(run, obs)
        recs = [json.loads(l) for l in open(obs)]
        acc.traces = len(recs)
        from collections import Counter
        acc.notes["judge_verdicts"] = dict(Counter(verdicts))
        for r, v in zip(recs, verdicts):
            if v == "ok":
                continue
            f = {"prop": prop, "what": f"{r['op']} on {r['rep']}: observed {json.dumps(r['observed'])[:200]}", "source": "E4 Hex vectors",
                 "replay": {"kind": "hex", "record": r}, "sig": r["op"]}
            if v == "known:D6":
                f["key"] = "D6-concat-inline-spill"
            acc.fails.append(f)
    return acc


def plan_label(run, prop, tier):
    """C17: LabelGen.tla checks the round-trip / injectivity theorems on the model over the whole bounded text space (E1) and
    prints one vector per text; the harness runs Label::from_str / to_string / kid() lookups on every text."""
    acc = Acc()
    full, lo, hi = (4, 5, 10) if tier == "quick" else (5, 6, 11)
    cfg = f"INIT Init\nNEXT Next\nCONSTANTS Full = {full} LongLo = {lo} LongHi = {hi}\nCHECK_DEADLOCK FALSE\n"
    # (all texts of up to five symbols over sixteen symbols are more than TLC's default bound on the size of a set)
    path, cached = vlib.emit_ts(run, "LabelGen", cfg, timeout=3000, extra=["-maxSetSize", "6000000"])
    head = open(path).read(400000)
    import re as _re
    m = _re.search(r'<<"LABEL-THEOREMS", (TRUE|FALSE), (TRUE|FALSE), (TRUE|FALSE), (TRUE|FALSE), (\d+), (\d+)>>', head)
    if not m or "FALSE" in m.groups()[:4]:
        raise ToolError("Label.tla: the model itself violates a C17 theorem (round trip / back trip / too long / injective)")
    acc.e1.append({"model": "Label.tla theorems RoundTrip, BackTrip, TooLong, Injective over all enumerated texts", "texts": int(m.group(5)),
                   "required_ok_texts": int(m.group(6)), "result": "all TRUE"})
    obs = run.fresh("labobs", ".ndjson")
    p = vlib.sh([H, "labelvec", "--vectors", path, "--obs-out", obs], timeout=3000)
    j = json.loads(p.stdout.strip().splitlines()[-1])
    if j["vectors"] == 0 or j["by_class"].get("err", 0) == 0 or j["ok_labels_by_variant"].get("greek", 0) == 0:
        raise ToolError("vacuity: label vectors do not cover every class / variant")
    acc.states = j["vectors"]
    acc.transitions = j["vectors"]
    acc.notes.update({"evaluations": j["vectors"], "distinct_nontrivial": j["by_class"].get("ok", 0) + j["by_class"].get("err", 0),
                      "rule": "one case per text over the 11-symbol alphabet (alpha, digits, sign, ASCII, 2/3/4-byte characters, blank): all texts up to "
                              f"length {full}, structured ones up to length {hi}; non-trivial = the property requires Ok or Err for it",
                      "texts_by_class": j["by_class"], "ok_labels_by_variant": j["ok_labels_by_variant"],
                      "outcomes_differing_from_the_specification": j["mismatches"], "exhaustive": True})
    acc.samples = j["samples"]
    if j["mismatches"]:
        verdicts = vlib.obs_judge(run, "LabelJudge", "LABELVERDICT", obs)
        recs = [json.loads(l) for l in open(obs)]
        acc.traces = len(recs)
        for r, v in zip(recs, verdicts):
            if v != "ok":
                acc.fails.append({"prop": prop, "what": f"text {r['string']!r}: {v}", "source": "E4 Label vectors",
                                  "replay": {"kind": "label", "record": r}, "sig": v[:40]})
    return acc


def plan_export(run, prop, tier):
    """C18 (XML, DOT) and C20 (Debug, Display, v_print, inspect): read-only observers at every product state; the text is
    parsed back into facts and compared with the specification state; differences are judged by Trace.tla."""
    acc = Acc()
    if prop == "C18":
        obs, extra = ("xml", "dot"), ()
    else:
        obs, extra = ("debug",), ("inspect",)
    # cap > number of ids: there are always never-added slots; dead slots keep stale contents (snapshots are not masked)
    e2_product(run, acc, "A3", [(2, 5, 0), (16, 32, 2)], extra_ops=extra, observers=obs)
    e2_product(run, acc, "C2", [(2, 4, 0), (4, 3, 5), (2, 2, 1), (2, 3, 11), (2, 2, 7)], extra_ops=extra, observers=obs)
    e2_product(run, acc, "G3", [(2, 3, 6)], extra_ops=extra, observers=obs, need_gc=False)
    e2_product(run, acc, "F4a", [(1, 6, 2)], extra_ops=extra, observers=obs)
    if tier == "thorough":
        e2_product(run, acc, "F5", [(1, 5, 0)], extra_ops=extra, observers=obs)
        e2_product(run, acc, "F4b", [(2, 4, 0)], extra_ops=extra, observers=obs)
        e2_product(run, acc, "D3", [(1, 4, 2)], extra_ops=extra, observers=obs)
        e2_product(run, acc, "G4", [(2, 4, 0)], extra_ops=extra, observers=obs, need_gc=False, budget=20000000)
    for r in acc.e2:
        if not r.get("crashed") and not r.get("observer_checks"):
            acc.vacuity.append("no observer check executed")
    # E3: the same observers every 25 calls of long histories at the real limits (N-label vertices, 14 groups, capacity 256)
    s = vlib.seed()
    op = [dict(profile="observe", n=2, cap=24, steps=2500, seed=s * 100 + 81, window=10),
          dict(profile="observe", n=16, cap=256, steps=2500, seed=s * 100 + 82, window=40),
          # the observers at the limits: groups of 16 with 13 others alive and ids up to 255, a hub with 16 labels, ids 226..255
          dict(profile="cycle", n=16, cap=256, steps=1800, seed=s * 100 + 83, window=10, observe=40),
          dict(profile="fan", n=16, cap=64, steps=1200, seed=s * 100 + 84, window=24, observe=30),
          dict(profile="high", n=16, cap=256, steps=1200, seed=s * 100 + 85, window=30, observe=30),
          dict(profile="groups14", n=2, cap=64, steps=1200, seed=s * 100 + 86, window=24, observe=30),
          dict(profile="cycle", n=1, cap=64, steps=1500, seed=s * 100 + 87, window=10, observe=40),     # N = 1: chains, paths 18 vertices deep
          dict(profile="crowd", n=2, cap=300, steps=420, seed=s * 100 + 88, window=300, observe=60),    # 297 vertices present at once
          # labels that PRINT alike side by side on one vertex ("ab" and the Str "a b"; values no text denotes): every entry must still be there
          dict(profile="observe", n=4, cap=16, steps=1500, seed=s * 100 + 89, window=6, odd=1),
          dict(profile="fan", n=16, cap=32, steps=600, seed=s * 100 + 90, window=12, observe=20, odd=1),
          # one path of 140 vertices through ten groups (inspect walks 139 edges deep; three-digit ids in every printer)
          dict(profile="deepchain", n=1, cap=256, steps=0, seed=s * 100 + 91, window=8),
          # labels holding a quote and a backslash (DOT strings escape both; XML, Debug and v_print take them as they are)
          dict(profile="observe", n=4, cap=16, steps=900, seed=s * 100 + 94, window=6, odd=10),
          # the printers on data of 4 KiB .. 1 MiB (original and copy)
          dict(profile="bigdata", n=2, cap=16, steps=0, seed=s * 100 + 93, window=8)]
    if tier == "thorough":
        op += [dict(profile="observe", n=n, cap=cap, steps=8000, seed=s * 1000 + 800 + i, window=w) for i, (n, cap, w) in enumerate([(1, 12, 8), (3, 32, 14), (4, 64, 24), (8, 128, 40), (16, 64, 60)])]
    e3_drive(run, acc, op, label="E3 observers")
    return acc


def cfg_scriptgen(cap, maxlen, lits, vars_, labels, datas, maxn=2):
    return ("INIT Init\nNEXT Next\nCONSTANTS Cap = %d MaxLen = %d LitIds = %s Vars = %s Labels = %s Datas = %s\n"
            " MaxN = %d MaxGroups = 14 MaxGroupSize = 16\nCHECK_DEADLOCK FALSE\n"
            % (cap, maxlen, int_set(lits), tla_set(vars_), tla_set(labels), tla_set(datas), maxn))


def plan_script(run, prop, tier):
    """C14: ScriptGen.tla grows every in-domain program command by command, renders it in five legal formattings and in every
    single-fault corruption the property requires to be rejected, with the expected graph; the harness deploys the text and,
    independently, applies the same API calls, and compares the two graphs completely (and with the model)."""
    acc = Acc()
    datas = ["CA-FE", "00-1A-2B-3C-4D-5E-6F-70-81"]
    # the two variable names differ only by the nu sign ($x and $<nu>x are two variables; <nu> is optional in front of LITERALS only)
    jobs = [("programs <=4 commands, ids {0,1}, vars {x,<nu>x}, labels foo and one Greek character", cfg_scriptgen(5, 4, [0, 1], ["x", "%NU%x"], ["foo", "%RHO%"], datas), [(2, 5), (16, 64)], 1)]
    # labels at the edge of what a label text may be: the alpha sign with a seven-digit index, eight characters, 4-byte characters
    jobs.append(("programs <=3 commands, ids {0,1}, var {x}, labels alpha+7 digits / 8 characters / alpha0", cfg_scriptgen(5, 3, [0, 1], ["x"], ["%ALPHA%1234567", "abcdefgh", "%ALPHA%0"], ["CA-FE"], maxn=3), [(3, 5)], 1))
    if tier == "thorough":
        jobs.append(("programs <=5 commands, ids {0,1}, var {x}", cfg_scriptgen(5, 5, [0, 1], ["x"], ["foo"], ["CA-FE"]), [(2, 5), (3, 9)], 1))
        jobs.append(("programs <=4 commands, ids {0,2,3}, vars {x,y}", cfg_scriptgen(6, 4, [0, 2, 3], ["x", "y"], ["foo", "b"], datas), [(2, 6)], 1))
    s_ = vlib.seed()
    sp = [dict(profile="script", n=2, cap=64, steps=2500, seed=s_ * 100 + 71, window=12),
          dict(profile="script", n=16, cap=256, steps=2000, seed=s_ * 100 + 72, window=30),
          # scripts at the limits: one script with 33-48 variables, then the limit life-cycles (groups of 16, edges inside a full
          # group, 14 groups alive, collected and re-created ids) with every add/bind/put deployed as script chunks of 1-40 commands
          dict(profile="cyclescript", n=2, cap=64, steps=350, seed=s_ * 100 + 75, window=10),
          dict(profile="cyclescript", n=16, cap=130, steps=350, seed=s_ * 100 + 76, window=10)]
    if tier == "thorough":
        sp += [dict(profile="script", n=n, cap=cap, steps=6000, seed=s_ * 1000 + 700 + i, window=w) for i, (n, cap, w) in enumerate([(1, 64, 8), (3, 128, 16), (4, 256, 24), (8, 200, 40)])]
        sp += [dict(profile="cyclescript", n=n, cap=cap, steps=1200, seed=s_ * 1000 + 720 + i, window=10) for i, (n, cap) in enumerate([(1, 64), (3, 100), (4, 256), (8, 74), (16, 64)])]
    e3_drive(run, acc, sp, label="E3 scripts on graphs with history")
    # scripts as transitions of the product: the named family (variables, literals, every command kind) at EVERY product state
    # of the bounded instances, judged like any other call (the same API calls on a copy, the exact model)
    e2_product(run, acc, "A3", [(2, 3, 0), (16, 64, 0)], extra_ops=("deploy",))
    e2_product(run, acc, "F4a", [(1, 4, 0)], extra_ops=("deploy",))
    if not any(r.get("ops", {}).get("deploy", 0) > 0 for r in acc.e2):
        acc.vacuity.append("no deploy transition executed in the product")
    for name, cfg, runs, stride in jobs:
        path, cached = vlib.emit_ts(run, "ScriptGen", cfg, workers=8, timeout=3000)
        for k, (n, cap) in enumerate(runs):
            j = vlib.script_run(run, [path], n, cap, stride=stride, offset=k % stride)
            acc.states += j["executed"]
            acc.transitions += j["executed"] * 2
            rec = {k2: j[k2] for k2 in ("vectors", "executed", "mismatching", "by_signature", "by_style", "by_fault", "with_variables", "n", "cap")}
            rec["generator"] = name
            acc.e2.append(rec)
            if j["samples"]:
                acc.samples.extend(j["samples"][:2])
            if j["executed"] == 0 or j["with_variables"] == 0 or len(j["by_fault"]) < 8 or len(j["by_style"]) < 5:
                raise ToolError("vacuity: script vectors do not cover variables / all fault classes / all styles")
            if j["witnesses"]:
                v = vlib.judge(run, j["witness_file"], n)
                acc.traces += len(j["witnesses"])
                wit = {w["t"]: w for w in j["witnesses"]}
                for (t, line, prop_, what) in v["fails"]:
                    w = wit.get(t)
                    acc.fails.append({"prop": prop_, "what": what + (": " + repr(w["calls"][0]["text"])[:160] if w else ""),
                                      "source": f"E2 script vectors {name} N={n} cap={cap}",
                                      "replay": {"n": n, "cap": cap, "calls": w["calls"]} if w else None, "sig": w["sig"] if w else ""})
    return acc


def plan_c09(run, prop, tier):
    """C09: Image.tla states the crash model and checks the layout argument (a schema-driven decoder rejects every strict
    prefix of every encoding); the crash point is then enumerated COMPLETELY on real images: every k < file length."""
    acc = Acc()
    r = vlib.tlc(run, "Image", "INIT Init\nNEXT Next\nCONSTANT Size = 6\nPROPERTY NeverHalfLoaded\nCHECK_DEADLOCK FALSE\n", workers=2, timeout=600)
    import re as _re
    m = _re.search(r'<<"IMAGE-LAYOUT", (TRUE|FALSE), (\d+)>>', r["out"])
    if not m or m.group(1) != "TRUE" or "No error has been found" not in r["out"]:
        raise ToolError("Image.tla: the layout argument or the crash model fails on the model\n" + r["out"][-2000:])
    acc.e1.append({"model": "Image.tla: PrefixRejected over the value universe + crash model NeverHalfLoaded", "values": int(m.group(2)),
                   "distinct_states": r["distinct"], "result": "no error"})
    # real-limit graphs: recorded by the drivers, cut at every position as well
    s = vlib.seed()
    extra_plan = [dict(profile="mixed", n=16, cap=24, steps=160, seed=s * 100 + 41, window=16),
                  dict(profile="big16", n=16, cap=24, steps=60, seed=s * 100 + 42, window=20),
                  dict(profile="groups14", n=16, cap=40, steps=80, seed=s * 100 + 43, window=10),
                  dict(profile="cycle", n=4, cap=46, steps=110, seed=s * 100 + 44, window=10),      # 13 groups + a group of 16, long data
                  dict(profile="cycle", n=2, cap=130, steps=75, seed=s * 100 + 47, window=10)]      # ids beyond 100
    if tier == "thorough":
        extra_plan += [dict(profile="mixed", n=16, cap=24, steps=60 + 40 * i, seed=s * 1000 + 400 + i, window=18) for i in range(10)]
    tr = run.fresh("trace", ".ndjson")
    vlib.sh([H, "drive", "--out", tr, "--scratch", run.dir, "--plan", json.dumps(extra_plan)], timeout=600)
    traces = vlib.split_traces(tr)
    extras = {}
    for t, evs in traces.items():
        if t == 0:
            continue
        meta = extra_plan[t - 1]
        extras.setdefault((meta["n"], meta["cap"]), []).append({"calls": calls_of_trace(evs)})
    jobs = [("A3", 2, 3, 0, 120), ("C2", 2, 4, 1, 120), ("D3", 1, 3, 2, 80), ("F4a", 1, 5, 1, 80)]
    if tier == "thorough":
        jobs = [("A3", 2, 3, 0, 1500), ("A3", 16, 8, 1, 600), ("C2", 2, 4, 1, 1000), ("D3", 1, 3, 2, 800), ("F4a", 1, 5, 1, 800), ("F5", 1, 6, 2, 600), ("B3", 1, 3, 1, 600)]
    total_loads = 0
    total_images = 0
    for inst, n, cap, tok, maxi in jobs:
        ts, _ = vlib.emit_ts(run, emit_module(inst), cfg_emit(inst, ()))
        j = vlib.truncate_run(run, ts, TOKENS[tok], n, cap, maxi)
        _c09_account(run, acc, j, f"instance {inst}")
        total_loads += j["loads"]
        total_images += j["images"]
    ts, _ = vlib.emit_ts(run, emit_module("C2"), cfg_emit("C2", ()))
    for (n, cap), ex in extras.items():
        j = vlib.truncate_run(run, ts, TOKENS[0], n, cap, 1, extra_calls=ex)
        _c09_account(run, acc, j, "real-limit graphs from recorded traces")
        total_loads += j["loads"]
        total_images += j["images"]
    if total_loads == 0:
        raise ToolError("vacuity: no truncated image was loaded")
    acc.notes.update({"evaluations": total_loads, "distinct_nontrivial": total_images,
                      "rule": "one evaluation = load() of one strict prefix of one image; images are distinct byte strings (deduplicated), "
                              "written by save() over a longer earlier image of the same path; EVERY cut position 0 <= k < file length is tried "
                              "for each image (the crash point is enumerated completely per image); distinct_nontrivial counts distinct images",
                      "exhaustive": False, "cut_positions_per_image": "all"})
    return acc


def _c09_account(run, acc, j, what):
    rec = {k: j[k] for k in ("n", "cap", "images", "loads", "bytes_total", "failures", "min_image", "max_image")}
    rec["graphs"] = what
    acc.e2.append(rec)
    acc.states += j["images"]
    acc.transitions += j["loads"]
    if j["samples"]:
        acc.samples.append(j["samples"][0])
    if j["witnesses"]:
        v = vlib.judge(run, j["witness_file"], j["n"])
        acc.traces += len(j["witnesses"])
        wit = {w["t"]: w for w in j["witnesses"]}
        for (t, line, prop_, what_) in v["fails"]:
            w = wit.get(t)
            acc.fails.append({"prop": prop_, "what": what_ + (f" (cut at byte {w['observer_event']['k']} of {w['observer_event']['size']})" if w else ""),
                              "source": f"fault enumeration, {what}, N={j['n']} cap={j['cap']}",
                              "replay": {"n": j["n"], "cap": j["cap"], "calls": w["calls"], "cut": w["observer_event"]} if w else None, "sig": "truncload"})


VISIBLE_KEYS = ("alive", "kids", "dat")


def _norm_event(e, observable_only=True):
    """what must be identical across replays and configurations: the call, its return value, and what every handle shows"""
    if e["op"] in ("reset", "end"):
        return None
    x = {k: v for k, v in e.items() if k not in ("obs", "t", "same", "msg", "direct")}
    if e["op"] == "new":
        x.pop("n", None)
        x.pop("cap", None)
    if "msg" in e and e.get("ret") == "err":
        x["msg"] = e["msg"]                        # error texts are results too (merge names the missed vertices)
    obs = []
    for o in e.get("obs", []):
        if "broken" in o:
            obs.append({"h": o["h"], "broken": True})
        else:
            keys = VISIBLE_KEYS if observable_only else VISIBLE_KEYS + ("unread", "groups", "nextv")
            obs.append({"h": o["h"], **{k: o[k] for k in keys}})
    x["obs"] = sorted(obs, key=lambda o: o["h"])
    return x


def _load_norm(path):
    res = []
    with open(path) as f:
        for line in f:
            e = json.loads(line)
            ne = _norm_event(e)
            if ne is not None:
                res.append((ne, _norm_event(e, False)))
    return res


def plan_c19(run, prop, tier):
    """C19: E1 two-instance product on the model (N and capacity only occur in guards); differential replay on the code: the
    same call sequence, recorded in the smallest configuration and validated by Trace.tla (so it is inside the limits of every
    larger one), is replayed three times there (separate processes) and once in each larger configuration; the complete
    observation logs must be identical (enumeration order of kids(), ids from next_id/merge/scripts, error texts included)."""
    acc = Acc()
    s = vlib.seed()
    for (ca, cb, na, nb) in ([(3, 5, 1, 2)] if tier == "quick" else [(3, 5, 1, 2), (3, 4, 2, 1), (2, 4, 2, 2)]):
        r = vlib.model_check(run, "MC_Indep", f"SPECIFICATION Spec\nCONSTANTS CapA = {ca} CapB = {cb} NA = {na} NB = {nb} Labels = {{\"a\", \"b\"}} "
                             "Vals = {\"x\"}\nINVARIANT SameAnswers\nINVARIANT SlicesSame\nINVARIANT MergesSame\nCHECK_DEADLOCK FALSE\n", timeout=3000)
        acc.add_e1(f"MC_Indep[cap {ca} vs {cb}, N {na} vs {nb}]: SameAnswers, SlicesSame, MergesSame (slice from / merge of that slice at every vertex)", r)
    rp = vlib.model_check(run, "MC_Indep", "SPECIFICATION Spec\nCONSTANTS CapA = 3 CapB = 5 NA = 1 NB = 2 Labels = {\"a\", \"b\"} Vals = {\"x\"}\n"
                          "INVARIANT ProbeMergeCreatesNothing\nCHECK_DEADLOCK FALSE\n", must_hold=False, coverage=False)
    if rp["ok"]:
        raise ToolError("vacuity: no merge of a slice creates a vertex in MC_Indep")
    acc.add_e1("MC_Indep[probe: no merge of a slice creates a vertex] (must be rejected)", rp, expect_error=True)
    steps = 1200 if tier == "quick" else 4000
    bases = [dict(profile="mixed", n=2, cap=12, steps=steps, seed=s * 100 + 51, window=10),
             dict(profile="twin", n=2, cap=12, steps=steps, seed=s * 100 + 52, window=9),
             dict(profile="slice", n=2, cap=12, steps=steps // 2, seed=s * 100 + 53, window=9),
             dict(profile="merge", n=2, cap=20, steps=steps // 2, seed=s * 100 + 54, window=9),
             dict(profile="mixed", n=1, cap=6, steps=steps // 2, seed=s * 100 + 55, window=6),
             dict(profile="pairs", n=2, cap=8, steps=300, seed=s * 100 + 56, window=8),
             dict(profile="pairs", n=2, cap=28, steps=400, seed=s * 100 + 57, window=28),
             # capacities that are neither small nor a power of two, ids beyond 128, the allocator walked to the last id
             dict(profile="merge", n=2, cap=140, steps=500, seed=s * 100 + 58, window=140),
             dict(profile="alloc", n=2, cap=120, steps=1000, seed=s * 100 + 59, window=10),
             dict(profile="high", n=2, cap=131, steps=500, seed=s * 100 + 60, window=12)]
    if tier == "thorough":
        bases += [dict(profile=p, n=n, cap=c, steps=steps, seed=s * 1000 + 500 + i, window=w)
                  for i, (p, n, c, w) in enumerate([("mixed", 3, 16, 12), ("twin", 1, 8, 7), ("slice", 3, 14, 10), ("merge", 3, 24, 10), ("groups14", 2, 40, 10), ("big16", 2, 20, 18),
                                                    ("cycle", 2, 64, 10), ("cyclescript", 2, 64, 10), ("alloc", 3, 150, 10), ("merge", 3, 130, 130), ("high", 2, 255, 20)])]
    others = {1: [(2, 6), (16, 256)], 2: [(2, 13), (3, 12), (4, 64), (16, 256)], 3: [(4, 17), (8, 64), (16, 256)]}
    if tier == "quick":
        others = {1: [(16, 256)], 2: [(3, 13), (16, 256)], 3: [(16, 256)]}
    big_others = [(3, 200), (16, 256)] if tier == "quick" else [(2, 129), (3, 200), (4, 255), (16, 256), (2, 1000)]
    compared = 0
    for b in bases:
        base_trace = run.fresh("base", ".ndjson")
        vlib.sh([H, "drive", "--out", base_trace, "--scratch", run.dir, "--plan", json.dumps([b])], timeout=1200)
        v = vlib.judge(run, base_trace, b["n"], timeout=3000)
        acc.traces += 1
        if v.get("voids"):
            acc.notes.setdefault("void_base_traces", []).append({"profile": b["profile"], "from_line": v["voids"][0][1]})
        for (t, line, prop_, what) in v["fails"]:
            acc.fails.append({"prop": prop_, "what": what, "source": f"base trace {b['profile']}", "replay": None, "sig": ""})
        # only the part inside the limits is compared: a history is cut where the judge declared it void.  (The merge profile
        # records every round - two fresh graphs - as a history of its own; replayed back to back they are the same calls.)
        voidmap = {t: l for (t, l) in v.get("voids", [])}
        segs = []                                            # one call list per recorded history, in file order
        evs = []
        for t, tev in sorted(vlib.split_traces(base_trace).items(), key=lambda kv: kv[1][0][0]):
            kept = [(ln, e) for (ln, e) in tev if not (t in voidmap and ln >= voidmap[t])]
            if calls_of_trace(kept):
                segs.append(calls_of_trace(kept))
                evs += kept
        calls = [c for sg in segs for c in sg]
        where = [(si, off) for si, sg in enumerate(segs) for off in range(len(sg))]
        base_norm = [(_norm_event(e), _norm_event(e, False)) for (_, e) in evs if _norm_event(e) is not None]
        if len(base_norm) != len(calls):
            raise ToolError("C19: calls and normalised events of the base trace do not line up")
        configs = [(b["n"], b["cap"], "same configuration, new process")] * 2 + [(n, max(c, b["cap"] + 1), "other configuration") for (n, c) in (big_others if b["cap"] >= 100 else others.get(b["n"], []))
                                                                                                  if n >= b["n"]]   # the history must fit the other configuration as well
        for (n, cap, kind) in configs:
            def _cfg(c):
                c = dict(c)
                if c["op"] == "new":
                    # graphs created with the base capacity get the new one; a merge operand that was created with ANOTHER
                    # capacity keeps its own (or the new one if that is larger: its ids must still fit)
                    if (n, cap) != (b["n"], b["cap"]):
                        c["cap"] = cap if c.get("cap") == b["cap"] else max(c.get("cap", cap), cap)
                    c["n"] = n
                return c
            css = [[_cfg(c) for c in sg] for sg in segs]
            cs = [c for sg in css for c in sg]
            cf = run.fresh("calls", ".json")
            json.dump([{"n": n, "cap": cap, "calls": sg, "t": i + 1} for i, sg in enumerate(css)], open(cf, "w"))
            out = run.fresh("replay", ".ndjson")
            vlib.sh([H, "record", "--calls", cf, "--out", out, "--scratch", run.dir], timeout=1200)
            got = _load_norm(out)
            compared += 1
            acc.transitions += len(got)
            diff_at = next((i for i in range(max(len(got), len(base_norm))) if i >= len(got) or i >= len(base_norm) or got[i][0] != base_norm[i][0]), None)
            lat_at = next((i for i in range(min(len(got), len(base_norm))) if got[i][1] != base_norm[i][1]), None)
            rec = {"profile": b["profile"], "base": [b["n"], b["cap"]], "replayed_in": [n, cap], "kind": kind, "events_compared": len(base_norm),
                   "first_visible_difference": diff_at, "first_hook_level_difference": lat_at}
            acc.e3.append(rec)
            if diff_at is not None:
                acc.fails.append({"prop": "C19", "what": f"{kind}: N={n} cap={cap} differs from N={b['n']} cap={b['cap']} at call {diff_at + 1} "
                                                         f"({json.dumps(cs[diff_at])[:120] if diff_at < len(cs) else 'length'})",
                                  "source": f"differential replay, profile {b['profile']}",
                                  "replay": {"kind": "diff", "a": {"n": b["n"], "cap": b["cap"]}, "b": {"n": n, "cap": cap}, "calls": (css[where[diff_at][0]][:where[diff_at][1] + 1] if diff_at < len(where) else css[-1]),
                                             "calls_a": (segs[where[diff_at][0]][:where[diff_at][1] + 1] if diff_at < len(where) else segs[-1])}, "sig": "diff"})
            if tier == "thorough" or kind == "other configuration":
                v2 = vlib.judge(run, out, n, timeout=3000)
                acc.traces += 1
                for (t, line, prop_, what) in v2["fails"]:
                    if prop_.startswith("X-"):
                        acc.notes.setdefault("exactness_notes", []).append({"lens": prop_, "config": [n, cap], "what": what})
        if not acc.samples_has("E3"):
            acc.samples.append({"engine": "E3", "profile": b["profile"], "first_calls": calls[:10]})
    acc.notes["replays_compared"] = compared
    if compared == 0:
        raise ToolError("vacuity: nothing was replayed")
    return acc


def plan_c07(run, prop, tier):
    """C07: the memory-safety verdict comes from AddressSanitizer watching the harness (built with -Zsanitizer=address, debug
    assertions on) replay histories: many short ones that each overstep one limit or precondition (id >= capacity incl.
    usize::MAX, N+1st label, 17th member from either side, 15th group, absent / equal endpoints, calls on absent vertices,
    exhausted allocator) and keep using the object afterwards, plus the ordinary long drivers (clones, save/load, slices,
    merges).  The specification classifies every call (Trace.tla, Overrun): inside the limits -> must complete; one of the
    three named overruns -> must panic; anything else outside the domain -> left open."""
    acc = Acc()
    asan = vlib.build_harness_asan()
    s = vlib.seed()
    if tier == "quick":
        plan = [dict(profile="limits", n=2, cap=32, steps=5000, seed=s * 100 + 61, window=10),
                dict(profile="limits", n=1, cap=30, steps=3000, seed=s * 100 + 62, window=8),
                dict(profile="limits", n=16, cap=64, steps=3000, seed=s * 100 + 63, window=20),
                dict(profile="limits", n=4, cap=30, steps=2500, seed=s * 100 + 64, window=30),
                dict(profile="twin", n=2, cap=16, steps=1200, seed=s * 100 + 65, window=9),
                dict(profile="merge", n=2, cap=32, steps=800, seed=s * 100 + 66, window=12),
                dict(profile="slice", n=4, cap=16, steps=800, seed=s * 100 + 67, window=12),
                # life-cycles at the limits (16 members, all 14 slots), copies taken there, the same through scripts, slices of 14
                dict(profile="cycle", n=2, cap=64, steps=900, seed=s * 100 + 68, window=10),
                dict(profile="cycletwin", n=16, cap=130, steps=900, seed=s * 100 + 69, window=10),
                dict(profile="cyclescript", n=4, cap=64, steps=250, seed=s * 100 + 70, window=10),
                dict(profile="slice", n=16, cap=64, steps=600, seed=s * 100 + 73, window=14),
                dict(profile="merge", n=16, cap=256, steps=800, seed=s * 100 + 74, window=200)]
    else:
        plan = [dict(profile="limits", n=n, cap=cap, steps=20000, seed=s * 1000 + 600 + i, window=w)
                for i, (n, cap, w) in enumerate([(1, 30, 8), (2, 32, 10), (2, 30, 30), (3, 40, 12), (4, 30, 30), (8, 64, 20), (16, 64, 20), (16, 256, 40), (2, 17, 17)])]
        plan += [dict(profile=p_, n=n, cap=cap, steps=5000, seed=s * 1000 + 650 + i, window=w)
                 for i, (p_, n, cap, w) in enumerate([("twin", 2, 16, 9), ("merge", 2, 32, 12), ("slice", 4, 16, 12), ("mixed", 16, 256, 40), ("groups14", 2, 64, 20), ("big16", 16, 40, 30),
                                                    ("cycle", 2, 64, 10), ("cycle", 1, 200, 10), ("cycletwin", 16, 130, 10), ("cycletwin", 3, 64, 10),
                                                    ("cyclescript", 4, 64, 10), ("slice", 16, 64, 14), ("merge", 16, 256, 200), ("alloc", 2, 120, 10)])]
    by_n = {}
    for p_ in plan:
        by_n.setdefault(p_["n"], []).append(p_)
    evals = 0
    oversteps = 0
    tid0 = 1
    for n, ps in sorted(by_n.items()):
        out = run.fresh("asan", ".ndjson")
        prog = run.fresh("progress", ".json")
        cmd = [asan, "drive", "--out", out, "--scratch", run.dir, "--plan", json.dumps(ps), "--first-tid", str(tid0), "--progress", prog]
        tid0 += len(ps)
        try:
            p = vlib.sh(cmd, env={"ASAN_OPTIONS": "detect_leaks=0:exitcode=77:abort_on_error=0"}, timeout=3000, check=False)
            rc, text = p.returncode, p.stdout
        except ToolError:
            rc, text = 124, "timeout"
        if rc != 0:
            if rc == 77 or "AddressSanitizer" in text or rc < 0 or rc in (134, 139):
                pending = json.load(open(prog)) if os.path.exists(prog) else {}
                tr = vlib.split_traces(out) if os.path.exists(out) else {}
                calls = calls_of_trace(tr.get(pending.get("t"), []))
                if pending.get("pending"):
                    calls.append(pending["pending"])
                report = [l for l in text.splitlines() if "AddressSanitizer" in l or l.strip().startswith("#")][:12]
                cfgp = next((x for x in ps if True), ps[0])
                acc.fails.append({"prop": "C07", "what": "memory error under AddressSanitizer (or abnormal process end, status %s): %s" % (rc, " | ".join(report)[:400]),
                                  "source": f"E5 sanitizer replay N={n}", "replay": {"n": n, "cap": cfgp["cap"], "calls": calls, "asan": True}, "sig": "asan"})
                acc.e3.append({"n": n, "crashed": True, "status": rc})
                continue
            raise ToolError(f"ASan harness failed (rc={rc}): " + text[-3000:])
        v = vlib.judge(run, out, n, timeout=3000)
        st = vlib.trace_stats(out)
        evals += v["events"]
        oversteps += len(v.get("voids", []))
        acc.traces += st["traces"]
        acc.e3.append({"n": n, "events_under_asan": v["events"], "histories": st["traces"], "histories_that_left_the_domain": len(v.get("voids", [])), "ops": st["ops"]})
        traces = None
        firsts = {}
        for (t, line, prop_, what) in sorted(v["fails"], key=lambda f: f[1]):
            firsts.setdefault((t, prop_), (t, line, prop_, what))
        for (t, line, prop_, what) in firsts.values():
            if traces is None:
                traces = vlib.split_traces(out)
            evs = [(ln, e) for (ln, e) in traces.get(t, []) if ln <= line]
            capv = next((e.get("cap") for (_, e) in traces.get(t, []) if e["op"] == "reset"), None)
            acc.fails.append({"prop": prop_, "what": what, "source": f"E5 sanitizer replay, classification by Trace.tla, N={n}",
                              "replay": {"n": n, "cap": capv, "calls": calls_of_trace(evs)}, "sig": ""})
        if not acc.samples:
            tr = vlib.split_traces(out)
            k = sorted(tr)[min(2, len(tr) - 1)]
            acc.samples.append({"history": calls_of_trace(tr[k])[-6:]})
    if evals == 0 and not acc.fails:
        raise ToolError("vacuity: nothing ran under the sanitizer")
    acc.notes.update({"evaluations": evals, "distinct_nontrivial": oversteps,
                      "rule": "evaluations = calls executed under AddressSanitizer and classified by the specification; distinct_nontrivial = histories in which a "
                              "call overstepped a limit or a precondition (one per short history, all different prefixes)",
                      "sanitizer": "AddressSanitizer (nightly rustc -Zsanitizer=address), detect_leaks=0 (emap never drops its elements), debug assertions on"})
    return acc


PLANS = {p: plan_gc for p in ("C01", "C02", "C03", "C04", "C06")}
PLANS["C07"] = plan_c07
PLANS["C19"] = plan_c19
PLANS["C09"] = plan_c09
PLANS["C14"] = plan_script
PLANS["C18"] = plan_export
PLANS["C20"] = plan_export
PLANS["C17"] = plan_label
PLANS["C15"] = plan_hex
PLANS["C16"] = plan_hex
PLANS["C11"] = plan_merge
PLANS["C12"] = plan_merge
PLANS["C13"] = plan_c13
PLANS["C05"] = plan_c05
PLANS["C08"] = plan_twin
PLANS["C10"] = plan_twin

LEVEL = {p: "model_checking" for p in PLANS}
LEVEL["C09"] = "fault_enumeration"
LEVEL["C07"] = "exploration"

ASSUME_BY_PROP = {
    "C07": ["AddressSanitizer (nightly rustc, -Zsanitizer=address) reports every out-of-bounds access, use-after-free and double free it sees; std itself is not instrumented; uninitialised reads are not detected (no MSan build of std is possible offline)",
            "the histories are sampled by seeded drivers (exploration, not exhaustive); the classification inside/overrun/open comes from the specification's guards (Trace.tla, Overrun)",
            "debug assertions are on in the harness build (the crate's containers check bounds only then), as the property states"],
    "C09": ["the images are those of sampled specification states plus recorded real-limit graphs; per image EVERY cut position is tried",
            "the file is what fs::read returns after save() overwrote a longer image at the same path (no fsync / page-cache effects are modelled)"],
    "C15": ["TLC and the CommunityModules Json module; the harness's four ways of building a Hex (from_slice, from_vec, Hex::Vector, Hex::Bytes with junk padding) cover the representations a user can obtain",
            "byte contents are four patterns per length (ramp, all FF, zeros with a leading one, all zero), not all 256^n strings; lengths, indices and ranges are complete up to the stated bounds",
            "Hex.tla's range semantics is cross-checked against std slices on every vector (a disagreement is a tool error)"],
    "C16": ["as C15; operands in every pair of representations", "the known finding D6 is matched by the predicate KnownConcatPadding of Hex.tla, nothing else is excused"],
    "C17": ["TLC; the 11-symbol alphabet stands for its character classes (ASCII letter / digit / sign, 2-, 3- and 4-byte characters, blank, alpha)",
            "texts the property leaves open (empty, containing a blank, alpha + leading zero, alpha + sign) are not judged"],
    "C19": ["identical logs across three processes and several configurations are evidence of determinism, not a proof (hash seeds differ per process, not adversarially)",
            "only call sequences validated by Trace.tla as inside the limits of the smallest configuration are compared"],
}
ASSUME_COMMON = [
    "TLC 2 and the CommunityModules Json/IOUtils are correct",
    "the hook verif_snapshot() copies the state out faithfully (read-only, feature `verif`)",
    "exhaustive parts are exhaustive for the bounded instances only (3 ids, <=2 labels, <=2 values); the real limits (14 groups, 16 members, N labels, capacity 256) are reached by recorded traces",
]


def finish(run, prop, tier, acc, wall):
    import re as _re
    # a coverage guard that did not come true is a tool error ONLY when nothing was reported: code that misbehaves so badly that
    # (say) nothing is ever collected has its mismatches judged and reported; the guard must not turn that into "exit 2"
    if acc.vacuity and not acc.fails:
        raise ToolError("vacuity: " + "; ".join(acc.vacuity))
    if acc.vacuity:
        acc.notes["coverage_guards_not_met_while_failures_were_reported"] = acc.vacuity
    for f in acc.fails:
        m = _re.match(r"KNOWN:([\w-]+): (.*)", f.get("what", ""))
        if m:
            f["key"] = m.group(1)
            f["what"] = m.group(2)
    mine = [f for f in acc.fails if f["prop"] == prop]
    others = sorted({f["prop"] for f in acc.fails if f["prop"] != prop})
    known = [k for k in vlib.known_findings() if k["property"] == prop]
    viol = []
    seen_keys = set()
    for f in mine:
        key = f.get("key")
        k = next((k for k in known if key and k["key"] == key), None)
        if k:
            if k["key"] not in seen_keys:
                print(f"KNOWN-FINDING: property={prop} {k['text']}")
                seen_keys.add(k["key"])
            continue
        viol.append(f)
    # one replay file per distinct (source, what), at most 8
    out = []
    seen = set()
    for f in viol:
        kk = (f["source"], f["what"])
        if kk in seen or len(out) >= 8:
            continue
        seen.add(kk)
        path = vlib.save_replay(prop, str(len(out) + 1), {"property": prop, "what": f["what"], "found_by": f["source"],
                                                             "signature": f.get("sig", ""), "replay": f["replay"]})
        out.append(path)
        print(f"VIOLATION property={prop} replay={path}")
        print(f"  {f['what']}  [{f['source']}]")
    cov = {"states": acc.states, "transitions": acc.transitions, "traces_validated_against_impl": acc.traces,
           "samples": acc.samples[:6] or [{"note": "no sample recorded"}],
           "exhaustive": False,
           "e1_tlc_model_checking": acc.e1, "e2_product_spec_to_code": acc.e2, "e3_trace_validation_code_to_spec": acc.e3,
           "other_lenses_that_rejected_something": others, "known_findings_seen": sorted(seen_keys)}
    cov["how_the_counts_are_formed"] = ("states = distinct states TLC found in this run's E1 models + product states (spec state, implementation snapshot) reached by E2 "
                                        "(+ scenarios / vectors / images executed, where a plan has them); transitions = states TLC generated in E1 + transitions (or "
                                        "vectors, loads, replayed events) executed on the real code; traces_validated_against_impl = recorded executions of the real code "
                                        "judged by Trace.tla in this run (E3 traces + E2 witness paths; observation records for Hex/Label); all measured in this run")
    cov.update(acc.notes)
    if not acc.e1 and not acc.e2 and not acc.e3:
        for k in ("e1_tlc_model_checking", "e2_product_spec_to_code", "e3_trace_validation_code_to_spec"):
            cov.pop(k, None)
    vlib.write_evidence(prop, tier, LEVEL.get(prop, "model_checking"), cov, ASSUME_BY_PROP.get(prop, ASSUME_COMMON), wall, len(viol))
    if viol:
        return 1
    print(f"OK property={prop} tier={tier} states={acc.states} transitions={acc.transitions} traces={acc.traces} wall={wall:.1f}s")
    return 0


def replay(run, prop, path):
    j = json.load(open(path))
    rp = j["replay"]
    if rp.get("kind") == "diff":
        outs = []
        for cfgk in ("a", "a", "b"):
            cs = []
            if "calls_a" in rp:
                cs = rp["calls_a"] if cfgk == "a" else rp["calls"]          # exactly as recorded / as replayed
            for c in ([] if "calls_a" in rp else rp["calls"]):
                c = dict(c)
                if c["op"] == "new":
                    c["n"], c["cap"] = rp[cfgk]["n"], rp[cfgk]["cap"]
                cs.append(c)
            cf = run.fresh("calls", ".json")
            json.dump({"n": rp[cfgk]["n"], "cap": rp[cfgk]["cap"], "calls": cs}, open(cf, "w"))
            out = run.fresh("replay", ".ndjson")
            vlib.sh([H, "record", "--calls", cf, "--out", out, "--scratch", run.dir])
            outs.append([x[0] for x in _load_norm(out)])
        if outs[0] != outs[1] or outs[0] != outs[2]:
            print(f"VIOLATION property={prop} replay={path}")
            return 1
        print(f"replay: property {prop} holds on this history now")
        return 0
    if rp.get("kind") == "label":
        r = rp["record"]
        vec = run.fresh("vec", ".out")
        open(vec, "w").write(json.dumps(json.dumps({"text": r["text"], "cls": "replay", "label": {"k": "none"}})) + "\n")
        print("replay of label vectors: re-run the whole check (./check C17); the text is", repr(r["string"]))
        return plan_and_finish_single(run, prop)
    if rp.get("kind") == "hex":
        r = rp["record"]
        vec = run.fresh("vec", ".out")
        v = {"op": r["op"], "bytes": r["bytes"], "a": r["a"], "b": r["b"], "other": r["other"], "exp": {"k": "replay"}}
        open(vec, "w").write(json.dumps(json.dumps(v)) + "\n")
        obs = run.fresh("hexobs", ".ndjson")
        vlib.sh([H, "hexvec", "--vectors", vec, "--obs-out", obs], timeout=600)
        verdicts = vlib.hex_judge(run, obs)
        recs = [json.loads(l) for l in open(obs)]
        bad = [(x["rep"], x.get("rep_other"), x["observed"]) for x, v2 in zip(recs, verdicts) if v2 == "violation"]
        for b in bad:
            print("still differs:", b)
        if bad:
            print(f"VIOLATION property={prop} replay={path}")
            return 1
        print(f"replay: property {prop} holds on this case now (verdicts: {sorted(set(verdicts))})")
        return 0
    if rp.get("cut"):
        rp = dict(rp, then={"op": "truncload"})          # every cut position again
    elif j.get("signature", "").startswith("observer:") or rp.get("observer"):
        rp = dict(rp, then={"op": "observe", "what": []})
    if rp.get("asan"):
        print("note: this history was found under AddressSanitizer; the replay runs it in the plain harness (re-run ./check C07 for the sanitizer)")
    cf = run.fresh("calls", ".json")
    json.dump(rp, open(cf, "w"))
    out = run.fresh("replay", ".ndjson")
    vlib.sh([H, "record", "--calls", cf, "--out", out, "--scratch", run.dir])
    v = vlib.judge(run, out, rp["n"])
    mine = [f for f in v["fails"] if f[2] == prop]
    for f in v["fails"]:
        print("lens", f[2], "line", f[1], ":", f[3])
    import re as _re
    known = {k["key"]: k for k in vlib.known_findings() if k["property"] == prop}
    unlisted = []
    for f in mine:
        m = _re.match(r"KNOWN:([\w-]+): ", f[3])
        if m and m.group(1) in known:
            print(f"KNOWN-FINDING: property={prop} {known[m.group(1)]['text']}")
        else:
            unlisted.append(f)
    if unlisted:
        print(f"VIOLATION property={prop} replay={path}")
        return 1
    print(f"replay: property {prop} holds on this history now" + (" (apart from the listed known finding)" if mine else ""))
    return 0


def warm(run):
    """emit (and cache) the TLC outputs the quick tiers use; none of them depends on /repo"""
    for inst, extra in (("A3", ()), ("C2", ()), ("D3", ()), ("B3", ()), ("F4a", ()), ("F4b", ()), ("F5", ()),
                        ("A3", ("clone",)), ("A3", ("reload",)), ("C2", ("clone",)), ("C2", ("reload",)),
                        ("F4a", ("clone",)), ("F4a", ("reload",)), ("F5", ("clone",)), ("F5", ("reload",)),
                        ("A3", ("clone", "reload")), ("F4a", ("clone", "reload")),
                        ("C2", ("slice",)), ("G3", ("slice",)), ("A3", ("inspect",)), ("C2", ("inspect",)), ("G3", ("inspect",)),
                        ("F4a", ("inspect",)), ("G3", ())):
        vlib.emit_ts(run, emit_module(inst), cfg_emit(inst, extra))
    vlib.emit_ts(run, "MergeGen", cfg_mergegen(6, [0, 1], [1, 2, 3], 2, 3, 0, True), workers=8)
    vlib.emit_ts(run, "MergeGen", cfg_mergegen(6, [0, 1], [0, 1, 2, 3], 2, 2, 2, False), workers=8)
    vlib.emit_ts(run, "ScriptGen", cfg_scriptgen(5, 4, [0, 1], ["x", "%NU%x"], ["foo", "%RHO%"], ["CA-FE", "00-1A-2B-3C-4D-5E-6F-70-81"]), workers=8)
    for mode in ("access", "concat"):
        vlib.emit_ts(run, "HexGen", hexgen_cfg(11, 12, mode, "quick"))
    vlib.emit_ts(run, "LabelGen", "INIT Init\nNEXT Next\nCONSTANTS Full = 4 LongLo = 5 LongHi = 10\nCHECK_DEADLOCK FALSE\n", timeout=3000)
    vlib.apalache_ind(run)
    vlib.tlaps_ind(run)
