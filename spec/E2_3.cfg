INIT Init
NEXT NextX
VIEW view
ACTION_CONSTRAINT Emit
CONSTANTS Cap = 3 Labels = {"a"} Vals = {"x"} MaxN = 1 MaxGroups = 14 MaxGroupSize = 16 Extra = {}
CHECK_DEADLOCK FALSE
