SPECIFICATION Spec
VIEW view
CONSTANTS Cap = 3 Labels = {"a"} Vals = {"x"} MaxN = 1 MaxGroups = 14 MaxGroupSize = 16
INVARIANT TypeOK
INVARIANT CanAlwaysGroup
PROPERTY ShrinkOnlyByFirstRead
PROPERTY DiesExactlyThen
PROPERTY GroupRules
PROPERTY OthersUntouched
PROPERTY ReadBack
PROPERTY AddBlankOrNothing
CHECK_DEADLOCK FALSE
