----------------------------- MODULE HexJudge -----------------------------
(* Judges what the real Hex did (records written by the harness for every case whose outcome differed from the
   vector) with the operators of Hex.tla: VIOLATION of C15 / C16, or the recorded known finding D6. *)
EXTENDS Hex, Json, IOUtils
Obs == ndJsonDeserialize(IOEnv.OBS)
U(i) == IF i = -1 THEN Max ELSE i
Expected(r) ==
  LET s == r.bytes  a == U(r.a)  b == U(r.b) IN
  CASE r.op = "len" -> [k |-> "int", v |-> Len(s)]
    [] r.op = "print" -> [k |-> "str", v |-> PrintHex(s)]
    [] r.op \in {"roundtrip", "to_vec", "full"} -> Bytes(s)
    [] r.op \in {"to_i64", "to_f64"} -> To64(s)
    [] r.op = "to_bool" -> ToBool(s)
    [] r.op = "is_empty" -> [k |-> "bool", v |-> Len(s) = 0]
    [] r.op \in {"index", "byte_at"} -> Index(s, a)
    [] r.op = "tail" -> TailOf(s, a)
    [] r.op = "from" -> RangeFrom(s, a)
    [] r.op = "to" -> RangeTo(s, a)
    [] r.op = "to_incl" -> RangeToIncl(s, a)
    [] r.op = "set" -> SetByte(s, a, r.b)
    [] r.op = "range" -> RangeOf(s, a, b)
    [] r.op = "incl" -> RangeIncl(s, a, b)
    [] r.op = "incl_spent" -> RangeInclSpent(s, a, b)
    [] r.op = "eq" -> [k |-> "bool", v |-> s = r.other]
    [] r.op = "concat" -> Bytes(Concat(s, r.other))
Verdict(r) ==
  IF r.observed = Expected(r) /\ ~r.operands_changed THEN "ok"
  ELSE IF r.op = "concat" /\ ~r.operands_changed /\ r.observed.k = "bytes"
          /\ KnownConcatPadding(r.bytes, r.inline, r.raw, r.other, r.observed.v) THEN "known:D6"
  ELSE "violation"
\* (evaluated in the action, not in an ASSUME: TLC evaluates assumptions on the JVM's main thread, whose stack -Xss does not
\* enlarge, and PrintHex of a 257-byte string is 257 levels of a non-tail recursion)
VARIABLE x
Init == x = 0
Next == x = 0 /\ x' = 1 /\ PrintT(<<"HEXVERDICT", ToJson([i \in 1..Len(Obs) |-> Verdict(Obs[i])])>>)
=============================================================================
