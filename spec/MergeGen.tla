---------------------------- MODULE MergeGen ----------------------------
(***************************************************************************)
(* Generator for C11 / C12: enumerates every scenario                      *)
(*   left graph g  = a labelled tree over GIds (every shape up to MaxG     *)
(*                   vertices, every placement of data, some data already  *)
(*                   read),                                                *)
(*   right graph h = a labelled tree over HIds (likewise) plus extra       *)
(*                   present vertices outside the tree (isolated, with or  *)
(*                   without data, or joined by a detached edge),          *)
(*   every `left` in g, right = the root of h's tree,                      *)
(* builds both with the core operators, merges them with MergeOp (the      *)
(* transcription of merge.rs) and prints, as one JSON line, the calls      *)
(* that build the two graphs, the expected result and the expected         *)
(* outcome of reading every vertex afterwards in ascending and descending  *)
(* order.  TLC's initial-state enumeration is the scenario enumeration;    *)
(* the single Next step prints.                                            *)
(***************************************************************************)
EXTENDS SodgCore, Json
CONSTANTS Cap, GIds, HIds, Labels, MaxG, MaxH, MaxExtra, WithReads, WithGhosts

RECURSIVE Anc(_, _, _)
Anc(par, v, n) == IF n = 0 \/ v \notin DOMAIN par THEN {v} ELSE {v} \cup Anc(par, par[v], n - 1)
\* dat: "n" no data, "u" unread datum, "t" datum that was read once
Marks == IF WithReads THEN {"n", "u", "t"} ELSE {"n", "u"}
Trees(Ids, max) ==
  UNION { UNION { { [root |-> r, verts |-> V, par |-> par, lab |-> lab, dat |-> dat] : dat \in [V -> Marks] } :
                  par \in {p \in [V \ {r} -> V] : \A c \in V \ {r} : r \in Anc(p, c, Cardinality(V))},
                  lab \in [V \ {r} -> Labels] } :
          V \in {W \in SUBSET Ids : W # {} /\ Cardinality(W) <= max}, r \in Ids }
GoodTree(t) == /\ t.root \in t.verts
               /\ \A c1, c2 \in DOMAIN t.par : (c1 # c2 /\ t.par[c1] = t.par[c2]) => t.lab[c1] # t.lab[c2]
               /\ \A v \in t.verts : Cardinality({c \in DOMAIN t.par : t.par[c] = v}) <= MaxN
\* extras: a set of vertices outside the tree, each with a mark (no datum, an unread one, one that was read before the
\* merge - a vertex that is present all the same), optionally one detached edge between two of them
Extras(t, Ids) ==
  UNION { { [verts |-> E, dat |-> dat, edge |-> ed] :
              dat \in [E -> {"n", "u", "t"}],
              ed \in {<<>>} \cup {p \in E \X E : p[1] # p[2]} } :
          E \in {W \in SUBSET (Ids \ t.verts) : Cardinality(W) <= MaxExtra} }

\* construction: adds ascending, binds by ascending child id, puts ascending, reads ascending
Calls(t) ==
  LET vs == SetToSeq(t.verts)
      cs == SetToSeq(DOMAIN t.par)
      ds == SetToSeq({v \in t.verts : t.dat[v] # "n"})
      rs == SetToSeq({v \in t.verts : t.dat[v] = "t"}) IN
  [i \in 1..Len(vs) |-> [op |-> "add", v |-> vs[i]]]
  \o [i \in 1..Len(cs) |-> [op |-> "bind", v1 |-> t.par[cs[i]], v2 |-> cs[i], a |-> t.lab[cs[i]]]]
  \o [i \in 1..Len(ds) |-> [op |-> "put", v |-> ds[i], d |-> "x"]]
  \o [i \in 1..Len(rs) |-> [op |-> "data", v |-> rs[i]]]
ExtraCalls(x) ==
  LET vs == SetToSeq(x.verts)
      ds == SetToSeq({v \in x.verts : x.dat[v] # "n"})
      rs == SetToSeq({v \in x.verts : x.dat[v] = "t"}) IN
  [i \in 1..Len(vs) |-> [op |-> "add", v |-> vs[i]]]
  \o [i \in 1..Len(ds) |-> [op |-> "put", v |-> ds[i], d |-> "x"]]
  \* the reads come before the detached edge is bound: a read extra stays present (it is in no group yet)
  \o [i \in 1..Len(rs) |-> [op |-> "data", v |-> rs[i]]]
  \o (IF x.edge = <<>> THEN <<>> ELSE <<[op |-> "bind", v1 |-> x.edge[1], v2 |-> x.edge[2], a |-> CHOOSE a \in Labels : TRUE]>>)
Apply(g, c) == CASE c.op = "add" -> AddOp(g, c.v)
                 [] c.op = "bind" -> BindOp(g, c.v1, c.v2, c.a)
                 [] c.op = "put" -> PutOp(g, c.v, c.d)
                 [] c.op = "data" -> IF c.v \in g.present THEN DataOp(g, c.v) ELSE g
RECURSIVE Build(_, _, _)
Build(g, cs, i) == IF i > Len(cs) THEN g ELSE Build(Apply(g, cs[i]), cs, i + 1)
\* a call list is usable when every call is inside the limits and preconditions when it is made
RECURSIVE Legal(_, _, _)
Legal(g, cs, i) ==
  IF i > Len(cs) THEN TRUE
  ELSE LET c == cs[i] IN
       /\ CASE c.op = "add" -> AddOk(g, c.v)
            [] c.op = "bind" -> BindOk(g, c.v1, c.v2, c.a)
            [] c.op = "put" -> PutOk(g, c.v)
            [] c.op = "data" -> DataOk(g, c.v)
       /\ Legal(Apply(g, c), cs, i + 1)

\* reading every vertex once, in the given order, skipping vertices already collected
RECURSIVE ReadAll(_, _, _)
ReadAll(g, vs, i) ==
  IF i > Len(vs) THEN <<>>
  ELSE IF vs[i] \notin g.present THEN ReadAll(g, vs, i + 1)
  ELSE LET g2 == DataOp(g, vs[i]) IN
       <<[v |-> vs[i], ret |-> DataRet(g, vs[i]), alive |-> g2.present]>> \o ReadAll(g2, vs, i + 1)
Rev(s) == [i \in 1..Len(s) |-> s[Len(s) + 1 - i]]

(* E1 for C11 / C12: the contract, checked on the model for every enumerated scenario *)
AllE(f, t, a) == TRUE
Contract(g, h, left, right, r) ==
  LET R == Reach(h, right, AllE)
      m == r.m
      img == {m[x] : x \in DOMAIN m}
      new == r.g.present \ g.present IN
  /\ WellFormed(r.g)
  /\ DOMAIN m = R /\ m[right] = left
  /\ r.ok <=> (R = h.present)                                   \* C12: Ok exactly when nothing was missed
  /\ r.missed = h.present \ R
  /\ \A x \in R : \A i \in 1..Len(h.edges[x]) :                 \* every labelled path of h exists in g
        KidOf(r.g, m[x], h.edges[x][i][1]) = m[h.edges[x][i][2]]
  /\ \A x \in R : h.st[x] # "empty" => (r.g.val[m[x]] = h.val[x] /\ r.g.st[m[x]] = "stored")
  /\ \A x, y \in R : x # y => m[x] # m[y]                        \* distinct h vertices, distinct g vertices
  /\ g.present \subseteq r.g.present                             \* everything g had is still there
  /\ \A v \in g.present : \A a \in LabelsOf(g, v) : KidOf(r.g, v, a) = KidOf(g, v, a)
  /\ \A v \in g.present : (\A x \in R : m[x] = v => h.st[x] = "empty") => (r.g.val[v] = g.val[v] /\ r.g.st[v] = g.st[v])
  /\ new \subseteq img /\ new \cap g.present = {}               \* exactly one new vertex per path g lacked
  /\ \A v \in r.g.present : \A a \in LabelsOf(r.g, v) :          \* only edges demanded by h are added
        (v \in g.present /\ a \in LabelsOf(g, v)) \/ (\E x \in R : m[x] = v /\ a \in LabelsOf(h, x))
  \* GC state as if by add/bind/put: every new vertex sits in its parent's group
  /\ \A v \in new : GroupOf(r.g, v) # {} /\ \E u \in GroupOf(r.g, v) : v \in TargetsOf(r.g, u)

\* history of the left graph: a group of two vertices outside the tree that lived and was collected before the tree is
\* built (stale slot contents; the allocator hands their ids out again)
GhostCalls(t, on) ==
  LET free == (0..(Cap - 1)) \ t.verts IN
  IF ~on \/ Cardinality(free) < 2 THEN <<>>
  ELSE LET a == CHOOSE x \in free : \A y \in free : x <= y
           b == CHOOSE x \in free \ {a} : \A y \in free \ {a} : x <= y
           l == CHOOSE x \in Labels : TRUE IN
       <<[op |-> "add", v |-> a], [op |-> "add", v |-> b], [op |-> "bind", v1 |-> a, v2 |-> b, a |-> l],
         [op |-> "put", v |-> b, d |-> "x"], [op |-> "data", v |-> b]>>

VARIABLES tg, th, tx, left, ghost, done
Init == /\ ghost \in (IF WithGhosts THEN BOOLEAN ELSE {FALSE})
        /\ tg \in {t \in Trees(GIds, MaxG) : GoodTree(t)}
        /\ th \in {t \in Trees(HIds, MaxH) : GoodTree(t)}
        /\ tx \in Extras(th, HIds)
        /\ left \in tg.verts
        /\ done = FALSE
Next == /\ ~done /\ done' = TRUE /\ UNCHANGED <<tg, th, tx, left, ghost>>
        /\ LET gc == GhostCalls(tg, ghost) \o Calls(tg)
               hc == Calls(th) \o ExtraCalls(tx)
               ok == Legal(EmptyG(Cap), gc, 1) /\ Legal(EmptyG(Cap), hc, 1)
               g == Build(EmptyG(Cap), gc, 1)
               h == Build(EmptyG(Cap), hc, 1)
               usable == ok /\ left \in g.present /\ th.root \in h.present
               r == MergeOp(g, h, left, th.root) IN
           IF ~usable \/ ~r.lim THEN TRUE
           ELSE IF ~Contract(g, h, left, th.root, r) THEN PrintT(<<"CONTRACT-VIOLATION", gc, hc, left>>)
           ELSE PrintT(ToJson([gcalls |-> gc, hcalls |-> hc, left |-> left, right |-> th.root,
                               ok |-> r.ok, missed |-> r.missed, pre |-> g, hpre |-> h, post |-> r.g, log |-> r.log,
                               m |-> {<<k, r.m[k]>> : k \in DOMAIN r.m},
                               reads |-> << ReadAll(r.g, SetToSeq(r.g.present), 1),
                                            ReadAll(r.g, Rev(SetToSeq(r.g.present)), 1) >>]))
=============================================================================
