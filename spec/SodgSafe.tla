---------------------------- MODULE SodgSafe ----------------------------
(***************************************************************************)
(* C01 as a specification: the WEAKEST machine that is GC-safe.            *)
(* It knows nothing about groups or counters.  It records, from the        *)
(* history of calls alone,                                                 *)
(*   unread  vertices holding a datum that was put and not yet read,       *)
(*   link    the partition induced by all binds among current vertices,    *)
(*   bound   vertices that were an endpoint of a bind since their creation,*)
(* and allows a first read of v to remove ANY set R of vertices linked to  *)
(* v, all of them bound, none of them (other than v) holding an unread     *)
(* datum.  No other call removes anything.  A system that collects late,   *)
(* partially or never still refines this machine; a system that collects   *)
(* early, collaterally or in a non-reading call does not.                  *)
(***************************************************************************)
EXTENDS Naturals, FiniteSets
CONSTANT Cap
VARIABLES present, unread, link, bound
svars == <<present, unread, link, bound>>
Ids == 0..(Cap - 1)

ClassOf(v) == IF \E C \in link : v \in C THEN CHOOSE C \in link : v \in C ELSE {v}
Drop(L, R) == {C \ R : C \in {D \in L : D \ R # {}}}

SInit == present = {} /\ unread = {} /\ link = {} /\ bound = {}

SAdd(v) == /\ v \in Ids
           /\ IF v \in present THEN UNCHANGED svars
              ELSE /\ present' = present \cup {v}
                   /\ unread' = unread \ {v} /\ bound' = bound \ {v} /\ link' = Drop(link, {v})
SBind(v1, v2) == /\ v1 \in present /\ v2 \in present /\ v1 # v2
                 /\ bound' = bound \cup {v1, v2}
                 /\ LET C == ClassOf(v1) \cup ClassOf(v2) IN link' = {D \in link : D \cap C = {}} \cup {C}
                 /\ UNCHANGED <<present, unread>>
SPut(v) == v \in present /\ unread' = unread \cup {v} /\ UNCHANGED <<present, link, bound>>
SRead(v, R) == /\ v \in present /\ R \subseteq present
               /\ v \notin unread => R = {}
               /\ R \subseteq ClassOf(v) /\ R \subseteq bound
               /\ \A u \in R \ {v} : u \notin unread
               /\ present' = present \ R
               /\ unread' = (unread \ {v}) \ R
               /\ bound' = bound \ R
               /\ link' = Drop(link, R)
SNext == \/ \E v \in Ids : SAdd(v) \/ SPut(v)
         \/ \E v1, v2 \in Ids : SBind(v1, v2)
         \/ \E v \in Ids, R \in SUBSET Ids : SRead(v, R)
SSpec == SInit /\ [][SNext]_svars
=============================================================================
