---------------------------- MODULE LabelJudge ----------------------------
(* Judges what Label::from_str / to_string did on a text (records written by the harness for every text whose outcome
   differed from the vector) with the operators of Label.tla. *)
EXTENDS Label, Json, IOUtils
Obs == ndJsonDeserialize(IOEnv.OBS)
Verdict(r) ==
  LET c == Class(r.text) IN
  IF c = "unspecified" THEN "ok"
  ELSE IF c = "err" THEN (IF r.observed.k = "err" THEN "ok" ELSE "violation: a text that must be rejected was accepted (or panicked)")
  ELSE IF r.observed.k # "ok" THEN "violation: a well-formed text was rejected (or panicked)"
  ELSE IF r.observed.label # ParseL(r.text) THEN "violation: the text was parsed into another label than the one it denotes"
  ELSE IF r.observed.printed # r.text THEN "violation: parse then print does not return the text"
  ELSE IF ~r.observed.back THEN "violation: print then parse of the directly built label does not return an equal label"
  ELSE IF ~r.observed.lookup THEN "violation: an edge bound under the parsed label is not found under the built one (or vice versa)"
  ELSE "ok"
ASSUME PrintT(<<"LABELVERDICT", ToJson([i \in 1..Len(Obs) |-> Verdict(Obs[i])])>>)
VARIABLE x
Init == x = 0
Next == UNCHANGED x
=============================================================================
