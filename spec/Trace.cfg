SPECIFICATION TSpec
CONSTANTS MaxN = 2 MaxGroups = 14 MaxGroupSize = 16
POSTCONDITION Accepted
CHECK_DEADLOCK FALSE
