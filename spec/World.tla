------------------------------ MODULE World ------------------------------
(***************************************************************************)
(* Several graph handles: the calls that create a graph from another one   *)
(* (clone, save+load, slice) and the call that grafts one graph onto       *)
(* another (merge) next to the five mutators, any interleaving.            *)
(* History variable `issued` (ids handed out by each graph's allocator,    *)
(* inherited by clone) states C05; the action properties below state the   *)
(* world-level clauses of C01, C05, C08, C10 and C13 on the model.         *)
(***************************************************************************)
EXTENDS SodgCore
CONSTANTS Cap, Labels, Vals, NHandles, WithFile
VARIABLES gs, issued, ev,
          file      \* the checkpoint file: Null, or the graph as it was when save() wrote it (a snapshot in time)
wvars == <<gs, issued, ev, file>>
wview == <<gs, issued, file>>
Hs == 0..(NHandles - 1)
Ids == 0..(Cap - 1)
Null == [cap |-> 0]
Live(h) == gs[h].cap # 0

WInit == /\ gs = [h \in Hs |-> IF h = 0 THEN EmptyG(Cap) ELSE Null]
         /\ issued = [h \in Hs |-> {}]
         /\ ev = [op |-> "init"]
         /\ file = Null

WAdd(h, v) == /\ Live(h) /\ AddOk(gs[h], v)
              /\ gs' = [gs EXCEPT ![h] = AddOp(@, v)] /\ UNCHANGED issued
              /\ ev' = [op |-> "add", h |-> h, v |-> v] /\ UNCHANGED file
WBind(h, v1, v2, a) == /\ Live(h) /\ BindOk(gs[h], v1, v2, a)
              /\ gs' = [gs EXCEPT ![h] = BindOp(@, v1, v2, a)] /\ UNCHANGED issued
              /\ ev' = [op |-> "bind", h |-> h, v1 |-> v1, v2 |-> v2, a |-> a] /\ UNCHANGED file
WPut(h, v, d) == /\ Live(h) /\ PutOk(gs[h], v)
              /\ gs' = [gs EXCEPT ![h] = PutOp(@, v, d)] /\ UNCHANGED issued
              /\ ev' = [op |-> "put", h |-> h, v |-> v, d |-> d] /\ UNCHANGED file
WData(h, v) == /\ Live(h) /\ DataOk(gs[h], v)
              /\ gs' = [gs EXCEPT ![h] = DataOp(@, v)] /\ UNCHANGED issued
              /\ ev' = [op |-> "data", h |-> h, v |-> v, ret |-> DataRet(gs[h], v)] /\ UNCHANGED file
WNextId(h) == /\ Live(h) /\ NextIdOk(gs[h])
              /\ gs' = [gs EXCEPT ![h] = NextIdOp(@)]
              /\ issued' = [issued EXCEPT ![h] = @ \cup {NextIdOf(gs[h])}]
              /\ ev' = [op |-> "next_id", h |-> h, ret |-> NextIdOf(gs[h])] /\ UNCHANGED file
WClone(h, d) == /\ Live(h) /\ h # d
              /\ gs' = [gs EXCEPT ![d] = CloneOp(gs[h])]
              /\ issued' = [issued EXCEPT ![d] = issued[h]]
              /\ ev' = [op |-> "clone", h |-> h, dst |-> d] /\ UNCHANGED file
WReload(h, d) == /\ Live(h) /\ h # d
              /\ gs' = [gs EXCEPT ![d] = ReloadOp(gs[h])]
              /\ issued' = [issued EXCEPT ![d] = {}]
              /\ ev' = [op |-> "reload", h |-> h, dst |-> d] /\ UNCHANGED file
\* save() now, load() later: the file keeps the graph as it was when it was written, whatever happens to the original
\* afterwards (with one handle, load() is a roll-back to the checkpoint); WithFile switches the pair on (the file
\* multiplies the state space, so it is explored with one handle)
WSave(h) ==   /\ WithFile /\ Live(h)
              /\ file' = gs[h] /\ UNCHANGED <<gs, issued>>
              /\ ev' = [op |-> "save", h |-> h]
WLoad(d) ==   /\ WithFile /\ file.cap # 0
              /\ gs' = [gs EXCEPT ![d] = ReloadOp(file)]
              /\ issued' = [issued EXCEPT ![d] = {}]
              /\ ev' = [op |-> "load", h |-> d, dst |-> d] /\ UNCHANGED file
AllP(f, t, a) == TRUE
LtP(f, t, a) == f < t
WSlice(h, d, v, lt) ==
              /\ Live(h) /\ h # d
              /\ IF lt THEN SliceOk(gs[h], v, LtP) ELSE SliceOk(gs[h], v, AllP)
              /\ gs' = [gs EXCEPT ![d] = IF lt THEN SliceOp(gs[h], v, LtP) ELSE SliceOp(gs[h], v, AllP)]
              /\ issued' = [issued EXCEPT ![d] = {}]
              /\ ev' = [op |-> "slice", h |-> h, dst |-> d, v |-> v, lt |-> lt] /\ UNCHANGED file

\* merge(gs[d] into gs[h]): whatever the shape of gs[d] (tree, DAG, loop, forest) as long as every step stays inside
\* the limits (MergeOp.lim; join() is then never reached); the additions stay even when the call returns Err
WMerge(h, d, left, right) ==
              /\ Live(h) /\ Live(d) /\ h # d
              /\ left \in gs[h].present /\ right \in gs[d].present
              /\ LET r == MergeOp(gs[h], gs[d], left, right) IN
                 /\ r.lim
                 /\ gs' = [gs EXCEPT ![h] = r.g]
                 /\ issued' = [issued EXCEPT ![h] = @ \cup {r.log[i].ret : i \in {j \in 1..Len(r.log) : r.log[j].op = "next_id"}}]
                 /\ ev' = [op |-> "merge", h |-> h, src |-> d, left |-> left, right |-> right, ok |-> r.ok, m |-> r.m, missed |-> r.missed] /\ UNCHANGED file

\* deploy_to(): a script is the textual-order fold of the five mutators with a variable table that belongs to ONE
\* deployment (SodgCore!DeployOp); each variable takes one next_id() result at its first mention.  The programs are a
\* named family (every command kind, a variable used twice, two variables, a literal next to a variable):
Progs == ScriptFamily(Ids, Labels, Vals)
TabIds(tab) == {tab[n] : n \in DOMAIN tab}
WDeploy(h, prog) ==
              /\ Live(h)
              /\ LET r == DeployOp(gs[h], prog) IN
                 /\ r.lim
                 /\ gs' = [gs EXCEPT ![h] = r.g]
                 /\ issued' = [issued EXCEPT ![h] = @ \cup TabIds(r.tab)]
                 /\ ev' = [op |-> "deploy", h |-> h, prog |-> prog, tab |-> r.tab] /\ UNCHANGED file

WNext == \/ \E h \in Hs, v \in Ids : WAdd(h, v) \/ WData(h, v)
         \/ \E h \in Hs, v \in Ids, d \in Vals : WPut(h, v, d)
         \/ \E h \in Hs, v1, v2 \in Ids, a \in Labels : WBind(h, v1, v2, a)
         \/ \E h \in Hs : WNextId(h)
         \/ \E h, d \in Hs : WClone(h, d) \/ WReload(h, d)
         \/ \E h, d \in Hs, v \in Ids, lt \in BOOLEAN : WSlice(h, d, v, lt)
         \/ \E h, d \in Hs, l, r \in Ids : WMerge(h, d, l, r)
         \/ \E h \in Hs, prog \in Progs : WDeploy(h, prog)
         \/ \E h \in Hs : WSave(h) \/ WLoad(h)
WSpec == WInit /\ [][WNext]_wvars

(* ------------------------------ properties ---------------------------------- *)
WTypeOK == \A h \in Hs : Live(h) => WellFormed(gs[h])

\* C05: never a present id, never an id this graph (or the graph it was cloned from) issued before
FreshStep == (ev'.op = "next_id") =>
                (/\ ev'.ret \in Ids /\ ev'.ret \notin gs[ev'.h].present /\ ev'.ret \notin issued[ev'.h])
\* ... and merge() takes its new vertices from the same allocator: none of them was present or issued before
FreshMerge == (ev'.op = "merge") =>
                (LET new == gs'[ev'.h].present \ gs[ev'.h].present IN
                 new \cap issued[ev'.h] = {} /\ new \subseteq issued'[ev'.h])
\* ... and so do script variables: each stands for an id that was neither present nor issued, two variables of one script
\* never share an id, and the ids are booked as issued (C05's last sentence; C14: one next_id() result per variable)
FreshDeploy == (ev'.op = "deploy") =>
                (LET tab == ev'.tab IN
                 /\ TabIds(tab) \cap (gs[ev'.h].present \cup issued[ev'.h]) = {}
                 /\ \A n1, n2 \in DOMAIN tab : n1 # n2 => tab[n1] # tab[n2]
                 /\ TabIds(tab) \subseteq issued'[ev'.h]
                 /\ gs[ev'.h].present \subseteq gs'[ev'.h].present)
FreshIds == [][FreshStep /\ FreshMerge /\ FreshDeploy]_wvars
\* the allocator position is above everything issued (why the freshness holds)
IssuedBelowPos == \A h \in Hs : Live(h) => \A i \in issued[h] : i < gs[h].nextv

\* C01 (last clause): only a first read shrinks a graph; clone/save+load/slice/next_id/add/bind/put never do
OnlyReadsShrink == [][\A h \in Hs : (Live(h) /\ Live(h)' /\ ~(gs[h].present \subseteq gs'[h].present))
                        => (ev'.op = "data" /\ ev'.h = h /\ gs[h].st[ev'.v] = "stored")
                           \/ (ev'.op \in {"clone", "reload", "slice", "load"} /\ ev'.dst = h)]_wvars

\* C10 / C08: the copy equals the original (modulo the allocator position for save+load);
\* a call on one handle never changes another handle
CopyIsExact == [][ /\ ev'.op = "clone" => gs'[ev'.dst] = gs[ev'.h]
                   /\ ev'.op = "reload" => [gs'[ev'.dst] EXCEPT !.nextv = gs[ev'.h].nextv] = gs[ev'.h] ]_wvars
Independent == [][\A h \in Hs : (h # ev'.h /\ ~(ev'.op \in {"clone", "reload", "slice", "load"} /\ ev'.dst = h)) => gs'[h] = gs[h]]_wvars
\* C08 with time in between: only save() writes the file, and it writes the graph as it is; load() returns THAT graph
\* (allocator restarted), not what the original has become; save() changes no graph
FileIsSnapshot == [][ /\ (file' # file) => (ev'.op = "save" /\ file' = gs[ev'.h] /\ gs' = gs)
                      /\ (ev'.op = "load") => (gs'[ev'.dst] = [file EXCEPT !.nextv = 0] /\ file' = file) ]_wvars
\* probe, must be VIOLATED: some load() returns a graph that differs from what its handle held (the roll-back is real)
ProbeLoadChangesNothing == [][ev'.op = "load" => gs'[ev'.dst] = gs[ev'.dst]]_wvars

\* C13 on the model: kept vertices are exactly the reachable ones, under their ids; every edge between
\* kept vertices is there and nothing else; the source is unchanged
SliceExact == [][ev'.op = "slice" =>
                  LET src == gs[ev'.h]  res == gs'[ev'.dst]
                      K == IF ev'.lt THEN Reach(src, ev'.v, LtP) ELSE Reach(src, ev'.v, AllP) IN
                  /\ res.present = K
                  /\ \A v \in K : /\ \A i \in 1..Len(res.edges[v]) : \E j \in 1..Len(src.edges[v]) : res.edges[v][i] = src.edges[v][j]
                                  /\ \A j \in 1..Len(src.edges[v]) : src.edges[v][j][2] \in K =>
                                        \E i \in 1..Len(res.edges[v]) : res.edges[v][i] = src.edges[v][j]
                  /\ gs'[ev'.h] = src]_wvars

\* C11 / C12 on the model.  merge() only adds: every vertex, edge and group link of the left graph survives; data is
\* overwritten only on vertices in the image of the mapping, by the datum of the vertex mapped there; the right graph
\* is untouched (Independent).  When the call reports Ok, the mapping is total on the right graph's present vertices,
\* sends `right` to `left`, and carries every edge and every datum: a homomorphic image of the right graph lies in the
\* result.  It reports Err exactly when some present vertex of the right graph was not reached, and names exactly those.
MergeOnlyAdds == [][ev'.op = "merge" =>
                  LET g == gs[ev'.h]  g2 == gs'[ev'.h]  hh == gs[ev'.src]  m == ev'.m
                      img == {m[u] : u \in DOMAIN m} IN
                  /\ g.present \subseteq g2.present
                  /\ \A v \in g.present : \A i \in 1..Len(g.edges[v]) : i <= Len(g2.edges[v]) /\ g2.edges[v][i] = g.edges[v][i]
                  /\ \A G \in g.groups : \E G2 \in g2.groups : G \subseteq G2
                  /\ \A v \in g.present : (g2.val[v] # g.val[v] \/ g2.st[v] # g.st[v]) =>
                        \E u \in DOMAIN m : m[u] = v /\ hh.st[u] # "empty" /\ g2.val[v] = hh.val[u] /\ g2.st[v] = "stored"
                  /\ \A v \in g2.present \ g.present : v \in img
                  /\ gs'[ev'.src] = hh]_wvars
MergeCarriesAll == [][ev'.op = "merge" =>
                  LET g2 == gs'[ev'.h]  hh == gs[ev'.src]  m == ev'.m IN
                  /\ ev'.ok <=> (ev'.missed = {})
                  /\ ev'.missed = hh.present \ DOMAIN m
                  /\ DOMAIN m \subseteq hh.present /\ m[ev'.right] = ev'.left
                  /\ \A u \in DOMAIN m :
                        /\ m[u] \in g2.present
                        /\ \A i \in 1..Len(hh.edges[u]) : LET a == hh.edges[u][i][1]  t == hh.edges[u][i][2] IN
                              /\ t \in DOMAIN m /\ KidOf(g2, m[u], a) # None
                              \* the left graph's own edge under that label wins; otherwise the edge leads to the image of t
                              /\ (KidOf(gs[ev'.h], m[u], a) = None => KidOf(g2, m[u], a) = m[t])
                        \* a datum of the right graph arrives (the LAST right vertex mapped to a left vertex wins)
                        /\ hh.st[u] # "empty" => (g2.st[m[u]] = "stored" /\ \E u2 \in DOMAIN m : m[u2] = m[u] /\ g2.val[m[u]] = hh.val[u2])]_wvars
\* when the right graph is a tree below `right` and the left graph has nothing in the way (no edge of `left`... under a
\* label the right root uses), the mapping is injective: the right tree arrives as an isomorphic copy
MergeTreeInjective == [][(ev'.op = "merge" /\ IsTreeFrom(gs[ev'.src], ev'.right)) =>
                  /\ ev'.ok
                  /\ \A u1, u2 \in DOMAIN ev'.m : u1 # u2 => ev'.m[u1] # ev'.m[u2]]_wvars
\* probe, must be VIOLATED (a forest on the right is reported as Err): shows the merge clauses are not vacuous
ProbeMergeAlwaysOk == [][ev'.op = "merge" => ev'.ok]_wvars
=============================================================================
