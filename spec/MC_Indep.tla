----------------------------- MODULE MC_Indep -----------------------------
(***************************************************************************)
(* E1 for C19: N and the capacity occur in the model only inside guards.   *)
(* Two instances of the exact model with different constants are stepped   *)
(* by the same calls whenever the call is inside the limits of BOTH; they  *)
(* keep giving the same answers (alive set, ordered kids, data, read       *)
(* status, group partition, ids from next_id).                             *)
(***************************************************************************)
EXTENDS Naturals, Sequences, FiniteSets, TLC
CONSTANTS CapA, CapB, NA, NB, Labels, Vals
A == INSTANCE SodgCore WITH MaxN <- NA, MaxGroups <- 14, MaxGroupSize <- 16
B == INSTANCE SodgCore WITH MaxN <- NB, MaxGroups <- 14, MaxGroupSize <- 16
VARIABLES ga, gb, last
vars == <<ga, gb, last>>
Ids == 0..((IF CapA < CapB THEN CapA ELSE CapB) - 1)
Init == ga = A!EmptyG(CapA) /\ gb = B!EmptyG(CapB) /\ last = <<"init", 0, 0>>
Add(v) == A!AddOk(ga, v) /\ B!AddOk(gb, v) /\ ga' = A!AddOp(ga, v) /\ gb' = B!AddOp(gb, v) /\ last' = <<"add", 0, 0>>
Bind(v1, v2, a) == /\ A!BindOk(ga, v1, v2, a) /\ B!BindOk(gb, v1, v2, a)
                   /\ ga' = A!BindOp(ga, v1, v2, a) /\ gb' = B!BindOp(gb, v1, v2, a) /\ last' = <<"bind", 0, 0>>
Put(v, d) == A!PutOk(ga, v) /\ B!PutOk(gb, v) /\ ga' = A!PutOp(ga, v, d) /\ gb' = B!PutOp(gb, v, d) /\ last' = <<"put", 0, 0>>
Data(v) == /\ A!DataOk(ga, v) /\ B!DataOk(gb, v)
           /\ ga' = A!DataOp(ga, v) /\ gb' = B!DataOp(gb, v) /\ last' = <<"data", A!DataRet(ga, v), B!DataRet(gb, v)>>
NextId == /\ A!NextIdOk(ga) /\ B!NextIdOk(gb) /\ A!NextIdOf(ga) \in Ids /\ B!NextIdOf(gb) \in Ids
          /\ ga' = A!NextIdOp(ga) /\ gb' = B!NextIdOp(gb) /\ last' = <<"next_id", A!NextIdOf(ga), B!NextIdOf(gb)>>
Next == \/ \E v \in Ids : Add(v) \/ Data(v)
        \/ \E v \in Ids, d \in Vals : Put(v, d)
        \/ \E v1, v2 \in Ids, a \in Labels : Bind(v1, v2, a)
        \/ NextId
Spec == Init /\ [][Next]_vars
SameAnswers == /\ ga.present = gb.present
               /\ \A v \in ga.present : ga.edges[v] = gb.edges[v] /\ ga.val[v] = gb.val[v] /\ ga.st[v] = gb.st[v]
               /\ ga.groups = gb.groups /\ ga.nextv = gb.nextv
               /\ last[2] = last[3]
\* the composite operations as well: a slice from any vertex, and the merge of that slice back into the graph at any
\* vertex (new vertices for every path the left vertex lacks, ids from the allocator), give the same graph, the same
\* mapping and the same verdict under both sets of constants - whenever the operation is inside the limits of both
AllP(f, t, a) == TRUE
SameG(x, y) == /\ x.present = y.present /\ x.groups = y.groups /\ x.nextv = y.nextv
               /\ \A v \in x.present : x.edges[v] = y.edges[v] /\ x.val[v] = y.val[v] /\ x.st[v] = y.st[v]
SlicesSame == \A v \in ga.present :
                 (A!SliceOk(ga, v, AllP) /\ B!SliceOk(gb, v, AllP)) =>
                    LET sa == A!SliceOp(ga, v, AllP)  sb == B!SliceOp(gb, v, AllP) IN
                    /\ sa.present = sb.present /\ sa.groups = sb.groups
                    /\ \A u \in sa.present : sa.edges[u] = sb.edges[u]
MergesSame == \A l \in ga.present, r \in ga.present :
                 (A!SliceOk(ga, r, AllP) /\ B!SliceOk(gb, r, AllP)) =>
                    LET ra == A!MergeOp(ga, A!SliceOp(ga, r, AllP), l, r)
                        rb == B!MergeOp(gb, B!SliceOp(gb, r, AllP), l, r) IN
                    (ra.lim /\ rb.lim) => (SameG(ra.g, rb.g) /\ ra.ok = rb.ok /\ ra.m = rb.m)
\* probe, must be VIOLATED: some merge of a slice creates a vertex (MergesSame is not vacuous)
ProbeMergeCreatesNothing == \A l \in ga.present, r \in ga.present :
                 A!SliceOk(ga, r, AllP) => LET ra == A!MergeOp(ga, A!SliceOp(ga, r, AllP), l, r) IN ra.lim => ra.g.present = ga.present
=============================================================================
