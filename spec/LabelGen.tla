----------------------------- MODULE LabelGen -----------------------------
(* E1: the round-trip and injectivity theorems of C17 checked on the model over the whole bounded text space;
   E4: one vector per text (class, denoted label). *)
EXTENDS Label, Json
CONSTANTS Full, LongLo, LongHi
All == Texts(Full) \cup Long(LongLo, LongHi)
OkTexts == {t \in All : Class(t) = "ok"}
\* theorems on the model
RoundTrip == \A t \in OkTexts : PrintL(ParseL(t)) = t
\* distinct texts give distinct labels: as many labels as texts (a pairwise comparison would be quadratic)
Injective == Cardinality({ParseL(t) : t \in OkTexts}) = Cardinality(OkTexts)
Canonical == {ParseL(t) : t \in OkTexts}
BackTrip == \A l \in Canonical : Class(PrintL(l)) = "ok" /\ ParseL(PrintL(l)) = l
TooLong == \A t \in All : (Len(t) > 8 /\ "sp" \notin Elems(t)) => Class(t) = "err"
ASSUME PrintT(<<"LABEL-THEOREMS", RoundTrip, BackTrip, TooLong, Injective, Cardinality(All), Cardinality(OkTexts)>>)
VARIABLES t, done
Init == t \in All /\ done = FALSE
Next == /\ ~done /\ done' = TRUE /\ UNCHANGED t
        /\ PrintT(ToJson([text |-> t, cls |-> Class(t), label |-> IF Class(t) = "ok" THEN ParseL(t) ELSE [k |-> "none"]]))
=============================================================================
