------------------------------ MODULE Sodg ------------------------------
(***************************************************************************)
(* One graph object as a state machine: the reference model of C02.        *)
(* One action per public mutating call (the library is sequential, the     *)
(* linearization point of a call is its return).  `ev` describes the step  *)
(* just taken (call, arguments, return value); it is hidden from state     *)
(* identity by VIEW view, so that TLC's state graph is the graph of `g`.   *)
(* Guards are exactly the documented limits and preconditions: outside     *)
(* them the specification says nothing (see Limits.tla for those calls).   *)
(***************************************************************************)
EXTENDS SodgCore

CONSTANTS Cap,      \* vertex capacity
          Labels,   \* label tokens
          Vals      \* data tokens

VARIABLES g, ev
vars == <<g, ev>>
view == g

Ids == 0..(Cap - 1)

Init == g = EmptyG(Cap) /\ ev = [op |-> "init"]

Add(v)  == /\ AddOk(g, v)
           /\ g' = AddOp(g, v)
           /\ ev' = [op |-> "add", v |-> v]
Bind(v1, v2, a) ==
           /\ BindOk(g, v1, v2, a)
           /\ g' = BindOp(g, v1, v2, a)
           /\ ev' = [op |-> "bind", v1 |-> v1, v2 |-> v2, a |-> a]
Put(v, d) ==
           /\ PutOk(g, v)
           /\ g' = PutOp(g, v, d)
           /\ ev' = [op |-> "put", v |-> v, d |-> d]
Data(v) == /\ DataOk(g, v)
           /\ g' = DataOp(g, v)
           /\ ev' = [op |-> "data", v |-> v, ret |-> DataRet(g, v)]
NextId ==  /\ NextIdOk(g)
           /\ g' = NextIdOp(g)
           /\ ev' = [op |-> "next_id", ret |-> NextIdOf(g)]

Next == \/ \E v \in Ids : Add(v) \/ Data(v)
        \/ \E v \in Ids, d \in Vals : Put(v, d)
        \/ \E v1, v2 \in Ids, a \in Labels : Bind(v1, v2, a)
        \/ NextId

Spec == Init /\ [][Next]_vars

(* ------------------------- invariants (design level) ------------------- *)
TypeOK == WellFormed(g)

\* C01 (first clause) / C02: the alive set shrinks only by a first read, and then by exactly
\* the reader's group, and only if nobody else in it holds an unread datum
ShrinkOnlyByFirstRead ==
  [][ (~(g.present \subseteq g'.present)) =>
        /\ ev'.op = "data" /\ g.st[ev'.v] = "stored"
        /\ g.present \ g'.present = GroupOf(g, ev'.v)
        /\ \A u \in GroupOf(g, ev'.v) \ {ev'.v} : g.st[u] # "stored" ]_vars

\* C02: a group dies exactly in the step that reads its last unread datum
DiesExactlyThen ==
  [][ \A G \in g.groups :
        (G \notin g'.groups /\ ~(\E G2 \in g'.groups : G \subseteq G2))
          <=> (ev'.op = "data" /\ ev'.v \in G /\ Unread(g) \cap G = {ev'.v}) ]_vars

\* C02: group formation / joining rules
GroupRules ==
  [][ ev'.op = "bind" =>
        LET v1 == ev'.v1  v2 == ev'.v2  g1 == GroupOf(g, v1)  g2 == GroupOf(g, v2) IN
        /\ (g1 = {} /\ g2 = {}) => g'.groups = g.groups \cup {{v1, v2}}
        /\ (g1 = {} /\ g2 # {}) => g'.groups = (g.groups \ {g2}) \cup {g2 \cup {v1}}
        /\ (g1 # {} /\ g2 = {}) => g'.groups = (g.groups \ {g1}) \cup {g1 \cup {v2}}
        /\ (g1 # {} /\ g2 # {}) => g'.groups = g.groups ]_vars

\* C03: a call never changes edges or data of a vertex it does not name (survivors only)
OthersUntouched ==
  [][ \A v \in g.present \cap g'.present :
        /\ (ev'.op = "bind" /\ ev'.v1 = v) \/ g'.edges[v] = g.edges[v]
        /\ (ev'.op = "put" /\ ev'.v = v) \/ g'.val[v] = g.val[v] ]_vars

\* C03: read-your-writes
ReadBack ==
  [][ /\ ev'.op = "bind" => KidOf(g', ev'.v1, ev'.a) = ev'.v2
      /\ ev'.op = "put" => DataRet(g', ev'.v) = ev'.d ]_vars

\* C04: add on a present vertex changes nothing; on an absent one it creates a blank vertex
AddBlankOrNothing ==
  [][ ev'.op = "add" =>
        IF ev'.v \in g.present THEN g' = g
        ELSE /\ g' = [g EXCEPT !.present = @ \cup {ev'.v}]
             /\ g'.edges[ev'.v] = <<>> /\ g'.st[ev'.v] = "empty" ]_vars

\* C06: whenever fewer than MaxGroups groups are alive, two ungrouped vertices can form one
CanAlwaysGroup ==
  \A v1, v2 \in g.present :
     (v1 # v2 /\ GroupOf(g, v1) = {} /\ GroupOf(g, v2) = {} /\ Cardinality(g.groups) < MaxGroups
        /\ Len(g.edges[v1]) < MaxN) => \A a \in Labels : BindOk(g, v1, v2, a)

\* C06: the group table can always be emptied again, whatever has happened before: reading out every group (SodgCore!
\* DrainAll: at most one put and the reads of its unread data per group) collects exactly the grouped vertices, leaves
\* the ungrouped ones untouched, and then all MaxGroups groups can be formed anew (CanAlwaysGroup in that state)
Recoverable ==
  LET d == DrainAll(g)  grouped == UNION g.groups IN
  /\ d.groups = {}
  /\ d.present = g.present \ grouped
  /\ \A v \in d.present : d.edges[v] = g.edges[v] /\ d.val[v] = g.val[v] /\ d.st[v] = g.st[v]
  /\ d.nextv = g.nextv
\* probe, must be VIOLATED: some reachable state has a group (Recoverable is not vacuous)
ProbeNeverGrouped == g.groups = {}
=============================================================================
