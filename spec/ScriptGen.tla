----------------------------- MODULE ScriptGen -----------------------------
(***************************************************************************)
(* C14: every program of ADD/BIND/PUT commands over a few literal ids,     *)
(* two variables, two labels and two data values that stays inside the     *)
(* limits (TLC grows programs command by command and keeps only in-domain  *)
(* prefixes), rendered as concrete text in several legal formattings, and  *)
(* every single-fault corruption of the classes the property requires to   *)
(* be rejected.  One JSON line per (program, style, fault).                *)
(* %NU% stands for the nu sign (the harness substitutes it; TLA+ source    *)
(* files stay ASCII).                                                      *)
(***************************************************************************)
EXTENDS SodgCore, Json
CONSTANTS Cap, MaxLen, LitIds, Vars, Labels, Datas
Lit(i) == [k |-> "lit", id |-> i]
Var(n) == [k |-> "var", name |-> n]
Refs == {Lit(i) : i \in LitIds} \cup {Var(n) : n \in Vars}
Cmds == {[c |-> "ADD", v |-> r] : r \in Refs}
        \cup {[c |-> "BIND", v1 |-> r1, v2 |-> r2, a |-> a] : r1 \in Refs, r2 \in Refs, a \in Labels}
        \cup {[c |-> "PUT", v |-> r, d |-> d] : r \in Refs, d \in Datas}

(* ---- rendering ---- *)
\* data tokens are their own hex text in upper case, e.g. "CA-FE-01"; Lower/Mixed re-case the letters
LowerOf(ch) == CASE ch = "A" -> "a" [] ch = "B" -> "b" [] ch = "C" -> "c" [] ch = "D" -> "d" [] ch = "E" -> "e" [] ch = "F" -> "f" [] OTHER -> ch
Chars(s) == [i \in 1..Len(s) |-> SubSeq(s, i, i)]
RECURSIVE Join(_)
Join(cs) == IF cs = <<>> THEN "" ELSE Head(cs) \o Join(Tail(cs))
Recase(s, mode) == Join([i \in 1..Len(s) |-> IF mode = "lower" \/ (mode = "mixed" /\ i % 2 = 0) THEN LowerOf(Chars(s)[i]) ELSE Chars(s)[i]])
RefText(r, nu) == IF r.k = "var" THEN "$" \o r.name ELSE (IF nu THEN "%NU%" ELSE "") \o ToString(r.id)
Styles == {"compact", "spaced", "comments", "sloppy", "gaps"}
\* "gaps": a comment or a line break in EVERY gap between two tokens of a command (after the command name, after the
\* parenthesis, around every comma, before the closing parenthesis), CR LF line ends, data bytes separated by blanks,
\* line breaks and dashes.  (A comment is removed together with its line end, so one after the command name leaves the
\* blank in front of it - the only thing allowed between the name and the parenthesis.)
SpreadHex(d) == Join([i \in 1..Len(d) |-> IF Chars(d)[i] # "-" THEN Chars(d)[i]
                                          ELSE IF i % 2 = 1 THEN " \n\t" ELSE IF i % 3 = 0 THEN " - " ELSE "\r\n-"])
GapText(c) ==
  CASE c.c = "ADD" -> "ADD # to ( add;\n(\r\n\t" \o RefText(c.v, TRUE) \o " # which )\n\n)"
    [] c.c = "BIND" -> "BIND #, (\n  (\n" \o RefText(c.v1, FALSE) \o "\n,# from; to\n\t" \o RefText(c.v2, TRUE) \o "\r\n,\r\n" \o c.a \o " # label )\n)"
    [] c.c = "PUT" -> "PUT #\n(" \o RefText(c.v, TRUE) \o "\n,\n" \o SpreadHex(c.d) \o "\n# end of data\n )"
CmdText(c, st) ==
  IF st = "gaps" THEN GapText(c) ELSE
  LET nu == st \in {"spaced", "sloppy"}
      sp == IF st = "spaced" THEN " " ELSE IF st = "comments" THEN "\t" ELSE ""
      open == IF st = "spaced" THEN " (" ELSE "("
      hex(d) == Recase(d, IF st = "sloppy" THEN "lower" ELSE IF st = "comments" THEN "mixed" ELSE "upper") IN
  CASE c.c = "ADD" -> "ADD" \o open \o sp \o RefText(c.v, nu) \o sp \o ")"
    [] c.c = "BIND" -> "BIND" \o open \o sp \o RefText(c.v1, nu) \o sp \o "," \o sp \o RefText(c.v2, ~nu) \o "," \o sp \o c.a \o sp \o ")"
    [] c.c = "PUT" -> "PUT" \o open \o RefText(c.v, nu) \o sp \o "," \o sp \o hex(c.d) \o ")"
Sep(st, i, n) ==
  CASE st = "compact" -> ";"
    [] st = "spaced" -> " ;\n  "
    [] st = "comments" -> IF i % 2 = 1 THEN ";\t# a comment; with ) and $x\n" ELSE ";\n# a whole line; ADD(7)\n\n"
    [] st = "sloppy" -> IF i = n THEN "" ELSE ";;\n;"              \* empty commands, no final semicolon
    [] st = "gaps" -> IF i % 2 = 1 THEN "\r\n;\r\n" ELSE " # before the semicolon\n;"
RECURSIVE RenderFrom(_, _, _)
RenderFrom(prog, st, i) == IF i > Len(prog) THEN "" ELSE CmdText(prog[i], st) \o Sep(st, i, Len(prog)) \o RenderFrom(prog, st, i + 1)
Render(prog, st) == (IF st = "comments" THEN "# leading comment\n" ELSE IF st = "sloppy" THEN " ;\n" ELSE "") \o RenderFrom(prog, st, 1)

(* ---- single faults: the classes that must be rejected, at command k ---- *)
FaultKinds == {"unknown", "lowercase", "noopen", "noclose", "nosemi", "missingarg", "badid", "oddhex", "nonhex", "longlabel"}
Applicable(c, f, k, n) ==
  CASE f = "nosemi" -> k < n
    [] f = "badid" -> (c.c = "ADD" /\ c.v.k = "lit") \/ (c.c = "PUT" /\ c.v.k = "lit") \/ (c.c = "BIND" /\ c.v1.k = "lit")
    [] f \in {"oddhex", "nonhex"} -> c.c = "PUT"
    [] f = "longlabel" -> c.c = "BIND"
    [] OTHER -> TRUE
FaultyCmd(c, f) ==
  LET good == CmdText(c, "compact") IN
  CASE f = "unknown" -> "X" \o good
    [] f = "lowercase" -> (CASE c.c = "ADD" -> "add" [] c.c = "BIND" -> "bind" [] c.c = "PUT" -> "put") \o SubSeq(good, Len(c.c) + 1, Len(good))
    [] f = "noopen" -> c.c \o SubSeq(good, Len(c.c) + 2, Len(good))
    [] f = "noclose" -> SubSeq(good, 1, Len(good) - 1)
    [] f = "nosemi" -> good
    [] f = "missingarg" -> (CASE c.c = "ADD" -> "ADD()"
                              [] c.c = "BIND" -> "BIND(" \o RefText(c.v1, FALSE) \o "," \o RefText(c.v2, FALSE) \o ")"
                              [] c.c = "PUT" -> "PUT(" \o RefText(c.v, FALSE) \o ")")
    [] f = "badid" -> (CASE c.c = "ADD" -> "ADD(" \o ToString(c.v.id) \o "x)"
                         [] c.c = "PUT" -> "PUT(" \o ToString(c.v.id) \o "x," \o c.d \o ")"
                         [] c.c = "BIND" -> "BIND(" \o ToString(c.v1.id) \o "x," \o RefText(c.v2, FALSE) \o "," \o c.a \o ")")
    [] f = "oddhex" -> "PUT(" \o RefText(c.v, FALSE) \o "," \o c.d \o "-A)"
    [] f = "nonhex" -> "PUT(" \o RefText(c.v, FALSE) \o ",G" \o SubSeq(c.d, 2, Len(c.d)) \o ")"
    [] f = "longlabel" -> "BIND(" \o RefText(c.v1, FALSE) \o "," \o RefText(c.v2, FALSE) \o ",abcdefghi)"
RECURSIVE RenderFaulty(_, _, _, _)
RenderFaulty(prog, k, f, i) ==
  IF i > Len(prog) THEN ""
  ELSE (IF i = k THEN FaultyCmd(prog[i], f) ELSE CmdText(prog[i], "compact"))
       \o (IF i = k /\ f = "nosemi" THEN " " ELSE ";") \o RenderFaulty(prog, k, f, i + 1)

(* ---- enumeration: grow in-domain programs ---- *)
VARIABLES prog, st
Init == prog = <<>> /\ st = [g |-> EmptyG(Cap), tab |-> <<>>, lim |-> TRUE]
Out(text, p, faultAt, kind, style, g) ==
  PrintT(ToJson([text |-> text, prog |-> p, fault_at |-> faultAt, fault |-> kind, style |-> style, post |-> g,
                 count |-> IF faultAt = 0 THEN Len(p) ELSE 0]))
Emit(p, s2) ==
  /\ \A sty \in Styles : Out(Render(p, sty), p, 0, "none", sty, s2.g)
  \* faults at the LAST command only (earlier prefixes were emitted with their own last command): prefix applied, then Err
  /\ LET k == Len(p) IN
     \A f \in FaultKinds : Applicable(p[k], f, k, k + 1) /\ f # "nosemi" =>
         Out(RenderFaulty(p, k, f, 1), p, k, f, "compact", st.g)
  /\ (Len(p) >= 2 => Out(RenderFaulty(p, Len(p) - 1, "nosemi", 1), p, Len(p) - 1, "nosemi", "compact",
                         DeployFrom([g |-> EmptyG(Cap), tab |-> <<>>, lim |-> TRUE], SubSeq(p, 1, Len(p) - 2), 1).g))
Next == /\ Len(prog) < MaxLen
        /\ \E c \in Cmds :
             LET s2 == DeployStep(st, c) IN
             /\ s2.lim
             /\ prog' = Append(prog, c) /\ st' = s2
             /\ Emit(Append(prog, c), s2)
=============================================================================
