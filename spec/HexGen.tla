------------------------------ MODULE HexGen ------------------------------
(* Enumerates byte strings (every length 0..MaxLen, several contents), every index and every (start,end) of the
   six range kinds incl. usize::MAX, every concat pair, and prints the expected outcome of each case. *)
EXTENDS Hex, Json
CONSTANTS MaxLen, MaxIdx, Mode,      \* Mode: "access" (C15) or "concat" (C16)
          LongLens                   \* further, longer lengths (around powers of two), with indices at the edges only
Idxs == 0..MaxIdx \cup {Max}
IdxsOf(len) == IF len <= MaxLen THEN Idxs ELSE {0, 1, 7, 8, 9, len - 9, len - 8, len - 1, len, len + 1, Max}
OthersOf(len) == IF len <= MaxLen THEN 0..MaxLen ELSE {0, 1, 8, 9, len}
J(i) == IF i = Max THEN -1 ELSE i
\* contents: a ramp (every position distinguishable), all FF, a pattern with zeros and a one first
Content(n, p) == CASE p = 1 -> [i \in 1..n |-> (16 * p + i) % 256]
                   [] p = 2 -> [i \in 1..n |-> 255]
                   [] p = 3 -> [i \in 1..n |-> IF i = 1 THEN 1 ELSE IF i % 2 = 0 THEN 0 ELSE (128 + i) % 256]
                   [] p = 4 -> [i \in 1..n |-> (200 + 7 * i) % 256]
                   [] p = 5 -> [i \in 1..n |-> 0]                     \* all zero: looks like the blank array
VARIABLES n, p, done
Init == n \in (0..MaxLen) \cup LongLens /\ p \in {1, 2, 3, 5} /\ done = FALSE
VO(op, s, a, b, other, exp) == PrintT(ToJson([op |-> op, bytes |-> s, a |-> J(a), b |-> J(b), other |-> other, exp |-> exp]))
V(op, s, a, b, exp) == VO(op, s, a, b, <<>>, exp)
Access(s) ==
  /\ V("len", s, 0, 0, [k |-> "int", v |-> Len(s)])
  /\ V("print", s, 0, 0, [k |-> "str", v |-> PrintHex(s)])
  /\ V("roundtrip", s, 0, 0, Bytes(s))
  /\ V("to_vec", s, 0, 0, Bytes(s))
  /\ V("full", s, 0, 0, RangeFull(s))
  /\ V("to_i64", s, 0, 0, To64(s))
  /\ V("to_f64", s, 0, 0, To64(s))
  /\ V("to_bool", s, 0, 0, ToBool(s))
  /\ V("is_empty", s, 0, 0, [k |-> "bool", v |-> Len(s) = 0])
  /\ \A i \in IdxsOf(Len(s)) : /\ V("index", s, i, 0, Index(s, i))
                     /\ V("byte_at", s, i, 0, Index(s, i))
                     /\ V("tail", s, i, 0, TailOf(s, i))
                     /\ V("from", s, i, 0, RangeFrom(s, i))
                     /\ V("to", s, i, 0, RangeTo(s, i))
                     /\ V("to_incl", s, i, 0, RangeToIncl(s, i))
                     /\ V("set", s, i, 77, SetByte(s, i, 77))
  /\ \A a \in IdxsOf(Len(s)), b \in IdxsOf(Len(s)) : V("range", s, a, b, RangeOf(s, a, b)) /\ V("incl", s, a, b, RangeIncl(s, a, b)) /\ V("incl_spent", s, a, b, RangeInclSpent(s, a, b))
  /\ \A m \in OthersOf(Len(s)), q \in {1, 2, 3, 5} : VO("eq", s, m, q, Content(m, q), [k |-> "bool", v |-> s = Content(m, q)])
\* concat: every short length and every long one as the argument of every short receiver; for long receivers the edge lengths
\* and the lengths around 24/32 (a receiver shorter than, equal to and longer than the argument; totals across 32 and 64)
CatOthers(len) == IF len <= MaxLen THEN (0..MaxLen) \cup LongLens ELSE OthersOf(len) \cup {24, 25, 32, 33, len + 1, 2 * len + 1}
Cat(s) == \A m \in CatOthers(Len(s)), q \in {4, 5} : VO("concat", s, m, q, Content(m, q), Bytes(Concat(s, Content(m, q))))
Next == /\ ~done /\ done' = TRUE /\ UNCHANGED <<n, p>>
        /\ IF Mode = "access" THEN Access(Content(n, p)) ELSE Cat(Content(n, p))
=============================================================================
