------------------------------ MODULE SodgX ------------------------------
(***************************************************************************)
(* Sodg plus the calls that do not change the graph they are applied to    *)
(* (clone, save+load, slice, inspect) and the emitter used by engine E2:   *)
(* an ACTION_CONSTRAINT that prints every generated transition as JSON     *)
(* {pre, ev, post} (TLC evaluates it before de-duplicating states, so      *)
(* self-loops and transitions into known states are printed too).          *)
(***************************************************************************)
EXTENDS Sodg, Json

CONSTANT Extra      \* which of "clone", "reload", "slice", "inspect", "deploy" are enabled

\* the finite, named predicate family used for slice_some (shared with the harness)
Preds == {[k |-> "all"], [k |-> "none"], [k |-> "lt"]}
         \cup {[k |-> "label_ne", a |-> a] : a \in Labels}
         \cup {[k |-> "to_ne", t |-> t] : t \in Ids}
         \cup {[k |-> "edge_ne", u |-> u, t |-> t, a |-> a] : u \in Ids, t \in Ids, a \in Labels}
PredHolds(p, from, to, label) ==
  CASE p.k = "all" -> TRUE
    [] p.k = "none" -> FALSE
    [] p.k = "lt" -> from < to
    [] p.k = "label_ne" -> label # p.a
    [] p.k = "to_ne" -> to # p.t
    [] p.k = "edge_ne" -> ~(from = p.u /\ to = p.t /\ label = p.a)

Clone  == /\ "clone" \in Extra
          /\ g' = CloneOp(g) /\ ev' = [op |-> "clone"]
Reload == /\ "reload" \in Extra
          /\ g' = ReloadOp(g) /\ ev' = [op |-> "reload"]
Slice(v, p) ==
          /\ "slice" \in Extra
          /\ LET P(f, t, a) == PredHolds(p, f, t, a) IN
             /\ SliceOk(g, v, P)
             /\ IF p.k = "edge_ne"                 \* only edges that exist are worth excluding
                THEN p.u \in g.present /\ KidOf(g, p.u, p.a) = p.t ELSE TRUE
             /\ ev' = [op |-> "slice", v |-> v, p |-> p, ret |-> SliceOp(g, v, P)]
          /\ g' = g
\* inspect(v): every edge of every vertex reachable from v, as <<from, label, to>>, each exactly once
AllEdgesP(f, t, a) == TRUE
InspectEdges(v) ==
  LET R == Reach(g, v, AllEdgesP) IN
  UNION {{<<u, g.edges[u][i][1], g.edges[u][i][2]>> : i \in 1..Len(g.edges[u])} : u \in R}
Inspect(v) == /\ "inspect" \in Extra
              /\ v \in g.present /\ Reach(g, v, AllEdgesP) \subseteq g.present
              /\ g' = g /\ ev' = [op |-> "inspect", v |-> v, ret |-> InspectEdges(v)]

\* deploy_to(): a script of the named family (SodgCore!ScriptFamily) deployed to the graph as it is - the fold of the
\* mutators with a variable table of its own; inside the limits only
Deploy(prog) == /\ "deploy" \in Extra
                /\ LET r == DeployOp(g, prog) IN
                   /\ r.lim
                   /\ g' = r.g
                   /\ ev' = [op |-> "deploy", prog |-> prog, ret |-> Len(prog)]

NextX == \/ Next
         \/ \E prog \in ScriptFamily(Ids, Labels, Vals) : Deploy(prog)
         \/ Clone \/ Reload
         \/ \E v \in Ids, p \in Preds : Slice(v, p)
         \/ \E v \in Ids : Inspect(v)

SpecX == Init /\ [][NextX]_vars

Emit == PrintT(ToJson([pre |-> g, ev |-> ev', post |-> g']))
=============================================================================
