---------------------------- MODULE SodgImpl ----------------------------
(***************************************************************************)
(* The implementation-shaped specification: the slot table of src/lib.rs   *)
(* and the rules of src/ops.rs, action by action.                          *)
(*   tag[v]      Vertex.branch: 0 absent, 1 present-ungrouped, >=2 slot    *)
(*   members[s]  Sodg.branches[s] (member list, in push order); lists 0    *)
(*               and 1 are reserved and hold the sentinel <<0>>            *)
(*   counter[s]  Sodg.stores[s]: unread data among the members             *)
(*   pers, idata, iedges   slot contents; NEVER erased when a vertex dies  *)
(*   inextv      Sodg.next_v                                               *)
(*   bad         "panic" once a call panicked (the subtraction underflow)  *)
(* Rules = "fixed" is the design the properties describe and what the      *)
(* code is checked against.  Rules = "tree" transcribes ops.rs as it was   *)
(* at the pinned commit; TLC rejects it (see FINDINGS.md): its             *)
(* counterexamples are the defects D1-D5 repaired by the fix: commits.     *)
(* NSlots and SlotSize scale MAX_BRANCHES / MAX_BRANCH_SIZE down so that   *)
(* slot exhaustion and re-use are reachable with few ids.                  *)
(***************************************************************************)
EXTENDS Naturals, FiniteSets, Sequences, TLC
CONSTANTS Cap, Labels, Vals, MaxN, NSlots, SlotSize, Rules
Ids == 0..(Cap - 1)
Slots == 0..(NSlots - 1)
NoVal == "none"
VARIABLES tag, iedges, idata, pers, members, counter, inextv, ev, bad
ivars == <<tag, iedges, idata, pers, members, counter, inextv, ev, bad>>
iview == <<tag, iedges, idata, pers, members, counter, inextv, bad>>
ToSet(s) == {s[i] : i \in 1..Len(s)}

IInit == /\ tag = [v \in Ids |-> 0] /\ iedges = [v \in Ids |-> <<>>] /\ idata = [v \in Ids |-> NoVal]
         /\ pers = [v \in Ids |-> "empty"]
         /\ members = [s \in Slots |-> IF s < 2 THEN <<0>> ELSE <<>>]
         /\ counter = [s \in Slots |-> 0] /\ inextv = 0 /\ ev = [op |-> "init"] /\ bad = "no"

ISetEdge(s, a, t) == IF \E i \in 1..Len(s) : s[i][1] = a
                     THEN [i \in 1..Len(s) |-> IF s[i][1] = a THEN <<a, t>> ELSE s[i]]
                     ELSE Append(s, <<a, t>>)
HasLabel(v, a) == \E i \in 1..Len(iedges[v]) : iedges[v][i][1] = a
OK == bad = "no"

\* add(): src/ops.rs add()
IAdd(v) ==
  /\ OK
  /\ IF Rules = "tree"
     THEN tag' = [tag EXCEPT ![v] = 1] /\ UNCHANGED <<iedges, idata, pers>>
     ELSE IF tag[v] = 0
          THEN /\ tag' = [tag EXCEPT ![v] = 1] /\ iedges' = [iedges EXCEPT ![v] = <<>>]
               /\ idata' = [idata EXCEPT ![v] = NoVal] /\ pers' = [pers EXCEPT ![v] = "empty"]
          ELSE UNCHANGED <<tag, iedges, idata, pers>>
  /\ UNCHANGED <<members, counter, inextv, bad>> /\ ev' = [op |-> "add", v |-> v]

\* bind(): `for b in branches.iter_mut() if b.1.is_empty()` = first empty list, which may be
\* list 1 (or 0) once the tree rules have destroyed a reserved list
FirstEmpty == IF \E s \in Slots : members[s] = <<>>
              THEN CHOOSE s \in Slots : members[s] = <<>> /\ \A t \in Slots : members[t] = <<>> => s <= t
              ELSE 1
Carry(v) == IF Rules = "fixed" /\ pers[v] = "stored" THEN 1 ELSE 0
IBind(v1, v2, a) ==
  /\ OK /\ tag[v1] # 0 /\ tag[v2] # 0 /\ v1 # v2
  /\ HasLabel(v1, a) \/ Len(iedges[v1]) < MaxN
  /\ iedges' = [iedges EXCEPT ![v1] = ISetEdge(@, a, v2)]
  /\ LET ours == tag[v1]  theirs == tag[v2] IN
     IF ours = 1 /\ theirs = 1 THEN
        LET s == FirstEmpty IN
        /\ \E t \in Slots : members[t] = <<>>     \* within the limits: a free slot exists
        /\ tag' = [tag EXCEPT ![v1] = s, ![v2] = s]
        /\ members' = [members EXCEPT ![s] = <<v1, v2>>]
        /\ counter' = [counter EXCEPT ![s] = @ + Carry(v1) + Carry(v2)]
     ELSE IF ours = 1 THEN
        /\ Len(members[theirs]) < SlotSize
        /\ tag' = [tag EXCEPT ![v1] = theirs]
        /\ members' = [members EXCEPT ![theirs] = Append(@, v1)]
        /\ counter' = [counter EXCEPT ![theirs] = @ + Carry(v1)]
     ELSE IF theirs = 1 THEN
        /\ Len(members[ours]) < SlotSize
        /\ tag' = [tag EXCEPT ![v2] = ours]
        /\ members' = [members EXCEPT ![ours] = Append(@, v2)]
        /\ counter' = [counter EXCEPT ![ours] = @ + Carry(v2)]
     ELSE UNCHANGED <<tag, members, counter>>
  /\ UNCHANGED <<idata, pers, inextv, bad>> /\ ev' = [op |-> "bind", v1 |-> v1, v2 |-> v2, a |-> a]

\* put()
IPut(v, d) ==
  /\ OK /\ tag[v] # 0
  /\ idata' = [idata EXCEPT ![v] = d] /\ pers' = [pers EXCEPT ![v] = "stored"]
  /\ counter' = IF Rules = "tree" THEN [counter EXCEPT ![tag[v]] = @ + 1]
                ELSE IF tag[v] >= 2 /\ pers[v] # "stored" THEN [counter EXCEPT ![tag[v]] = @ + 1] ELSE counter
  /\ UNCHANGED <<tag, iedges, members, inextv, bad>> /\ ev' = [op |-> "put", v |-> v, d |-> d]

\* data()
IData(v) ==
  /\ OK /\ tag[v] # 0
  /\ ev' = [op |-> "data", v |-> v, ret |-> IF pers[v] = "empty" THEN NoVal ELSE idata[v]]
  /\ UNCHANGED <<iedges, idata, inextv>>
  /\ IF pers[v] = "stored" THEN
        LET b == tag[v] IN
        /\ pers' = [pers EXCEPT ![v] = "taken"]
        /\ IF Rules = "fixed" /\ b <= 1 THEN UNCHANGED <<tag, members, counter, bad>>
           ELSE IF counter[b] = 0 THEN bad' = "panic" /\ UNCHANGED <<tag, members, counter>>
           ELSE /\ counter' = [counter EXCEPT ![b] = @ - 1] /\ bad' = bad
                /\ IF counter[b] = 1
                   THEN /\ tag' = [u \in Ids |-> IF u \in ToSet(members[b]) THEN 0 ELSE tag[u]]
                        /\ members' = [members EXCEPT ![b] = <<>>]
                   ELSE UNCHANGED <<tag, members>>
     ELSE UNCHANGED <<pers, tag, members, counter, bad>>

\* next_id(): src/next.rs
INextId ==
  /\ OK /\ \E i \in Ids : i >= inextv /\ tag[i] = 0
  /\ LET id == CHOOSE i \in Ids : i >= inextv /\ tag[i] = 0 /\ \A j \in Ids : (j >= inextv /\ tag[j] = 0) => i <= j IN
     inextv' = id + 1 /\ ev' = [op |-> "next_id", ret |-> id]
  /\ UNCHANGED <<tag, iedges, idata, pers, members, counter, bad>>

INext == \/ \E v \in Ids : IAdd(v) \/ IData(v)
         \/ \E v \in Ids, d \in Vals : IPut(v, d)
         \/ \E v1, v2 \in Ids, a \in Labels : IBind(v1, v2, a)
         \/ INextId
ISpec == IInit /\ [][INext]_ivars

(* ------------------- refinement mapping to the exact model ------------------- *)
aPresent == {v \in Ids : tag[v] # 0}
aGroups == {ToSet(members[s]) : s \in {t \in Slots : t >= 2 /\ members[t] # <<>>}}
BlankDead(f, d) == [v \in Ids |-> IF tag[v] = 0 THEN d ELSE f[v]]
absG == [cap |-> Cap, present |-> aPresent, edges |-> BlankDead(iedges, <<>>), val |-> BlankDead(idata, NoVal),
         st |-> BlankDead(pers, "empty"), groups |-> aGroups, nextv |-> inextv]
Abs == INSTANCE Sodg WITH g <- absG, ev <- ev, MaxGroups <- NSlots - 2, MaxGroupSize <- SlotSize
RefinesSodg == Abs!Spec

(* ------------------- invariants of the representation ------------------------ *)
NoPanic == bad = "no"
\* C02's latent-state oracle: every counter equals the number of unread data among the members
CounterIsRecount == \A s \in Slots : s >= 2 => counter[s] = Cardinality({v \in ToSet(members[s]) : pers[v] = "stored"})
TagsMatchLists == /\ \A v \in Ids : tag[v] >= 2 => v \in ToSet(members[tag[v]])
                  /\ \A s \in Slots : s >= 2 => \A v \in ToSet(members[s]) : tag[v] = s
\* C06: a slot is free iff its list is empty; reserved lists keep their sentinel for ever
ReservedKept == members[0] = <<0>> /\ members[1] = <<0>> /\ counter[0] = 0 /\ counter[1] = 0
OccupiedIsGroups == Cardinality({s \in Slots : s >= 2 /\ members[s] # <<>>}) = Cardinality(aGroups)
\* C06: from every reachable representation state the abstract graph can be read out until no group is left
\* (Sodg!Recoverable on the mapped state); with OccupiedIsGroups this is "every usable slot can be made free again"
ImplRecoverable == Abs!Recoverable
NoDuplicateMembers == \A s \in Slots : Cardinality(ToSet(members[s])) = Len(members[s])
=============================================================================
