------------------------------ MODULE Image ------------------------------
(***************************************************************************)
(* C09.  Two small machines.                                               *)
(*                                                                         *)
(* (1) The crash model: save() is one non-atomic write.  The file is       *)
(*     absent, a strict prefix of the image (the write was cut at byte k)  *)
(*     or complete.  The property: load() of a strict prefix is an error.  *)
(*                                                                         *)
(* (2) Why the property should hold (the design argument, checked by TLC): *)
(*     the image is a tree of count-prefixed sequences of self-delimiting  *)
(*     fields (bincode: fixed-width integers, length-prefixed vectors and  *)
(*     maps, one-tag options and enums).  A decoder that follows the       *)
(*     schema and needs every byte the counts announce rejects every       *)
(*     strict prefix of every encoding.  Values: Fix(n) n raw bytes,       *)
(*     Seq(vs) an 8-byte count then the elements, Opt(v) / None one tag    *)
(*     byte then the payload.  The byte-level behaviour of the real        *)
(*     library is not decided here but by cutting real images at every     *)
(*     position (engine "truncate" of the harness).                        *)
(***************************************************************************)
EXTENDS Naturals, Sequences, FiniteSets, TLC

(* ------------------------- (2) layout model ------------------------------ *)
Fix(n) == [k |-> "fix", n |-> n]
SeqV(vs) == [k |-> "seq", vs |-> vs]
OptV(v) == [k |-> "opt", v |-> v]
NoneV == [k |-> "none"]
\* bytes are tagged so that the decoder can read counts and tags back: <<"raw">>, <<"cnt", n>>, <<"tag", 0|1>>
RECURSIVE Enc(_), EncAll(_, _)
Enc(v) == CASE v.k = "fix" -> [i \in 1..v.n |-> <<"raw">>]
            [] v.k = "seq" -> [i \in 1..8 |-> <<"cnt", Len(v.vs)>>] \o EncAll(v.vs, 1)
            [] v.k = "opt" -> <<<<"tag", 1>>>> \o Enc(v.v)
            [] v.k = "none" -> <<<<"tag", 0>>>>
EncAll(vs, i) == IF i > Len(vs) THEN <<>> ELSE Enc(vs[i]) \o EncAll(vs, i + 1)
\* schema of a value (what the decoder expects): same shape without the contents
RECURSIVE Dec(_, _, _), DecAll(_, _, _, _)
\* Dec(schema, bytes, pos) = position after the value, or 0 when bytes run out (error)
Dec(s, b, p) ==
  IF p = 0 THEN 0
  ELSE CASE s.k = "fix" -> IF p + s.n - 1 <= Len(b) THEN p + s.n ELSE 0
         [] s.k = "seq" -> IF p + 7 <= Len(b) THEN DecAll(s.vs, b, p + 8, 1) ELSE 0
         [] s.k \in {"opt", "none"} -> IF p > Len(b) THEN 0
                                        ELSE IF b[p][2] = 0 THEN p + 1 ELSE Dec(s.v, b, p + 1)
DecAll(vs, b, p, i) == IF p = 0 THEN 0 ELSE IF i > Len(vs) THEN p ELSE DecAll(vs, b, Dec(vs[i], b, p), i + 1)
Loads(s, b) == Dec(s, b, 1) # 0
\* a small universe of values: leaves, sequences of leaves/options, sequences of sequences
Leaves == {Fix(1), Fix(2), NoneV, OptV(Fix(1))}
Lists(S) == {<<>>} \cup {<<x>> : x \in S} \cup {<<x, y>> : x \in S, y \in S}
Level1 == Leaves \cup {SeqV(l) : l \in Lists(Leaves)}
Level2 == Level1 \cup {SeqV(l) : l \in Lists({SeqV(m) : m \in Lists({Fix(1), OptV(Fix(1))})} \cup {Fix(2)})}
PrefixRejected == \A v \in Level2 : /\ Loads(v, Enc(v))
                                    /\ \A k \in 0..(Len(Enc(v)) - 1) : ~Loads(v, SubSeq(Enc(v), 1, k))
ASSUME PrintT(<<"IMAGE-LAYOUT", PrefixRejected, Cardinality(Level2)>>)

(* ------------------------- (1) crash model -------------------------------- *)
CONSTANT Size                      \* length of the image in bytes (any positive number)
VARIABLES file, loaded             \* file: absent | a strict prefix of k bytes | complete; loaded: result of the last load
Init == file = [s |-> "none", k |-> 0] /\ loaded = "nothing"
BeginAndCrash(k) == k \in 0..(Size - 1) /\ file' = [s |-> "partial", k |-> k] /\ UNCHANGED loaded
Finish == file' = [s |-> "complete", k |-> Size] /\ UNCHANGED loaded
Load == /\ file.s # "none"
        /\ loaded' = IF file.s = "complete" THEN "graph" ELSE "error"      \* what C09 demands
        /\ UNCHANGED file
Next == (\E k \in 0..(Size - 1) : BeginAndCrash(k)) \/ Finish \/ Load
NeverHalfLoaded == [][(loaded' = "graph" /\ loaded' # loaded) => file.s = "complete"]_<<file, loaded>>
=============================================================================
