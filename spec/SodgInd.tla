----------------------------- MODULE SodgInd -----------------------------
(***************************************************************************)
(* The counter rules of SodgImpl.tla (Rules = "fixed") once more, typed    *)
(* for Apalache and with member lists as sets (their order plays no part   *)
(* in the invariants), in order to show that the representation invariants *)
(* are INDUCTIVE: they hold in the initial state and every call preserves  *)
(* them from ANY state that satisfies them, reachable within TLC's bounds  *)
(* or not.  TLC decides reachable states of small instances; this decides  *)
(* every state of a larger instance (Cap 6, 5 slots of 4) in one step.     *)
(*   apalache-mc check --init=Init    --inv=IndInv --length=0 APA_Ind.tla  *)
(*   apalache-mc check --init=IndInit --inv=IndInv --length=1 APA_Ind.tla  *)
(*   apalache-mc check --init=IndInit --inv=DiesOnlyByLastRead --length=1  *)
(*   apalache-mc check --init=IndInit --inv=NoUnderflow --length=0         *)
(* (DiesOnlyByLastRead is an action invariant: C01/C02 from any state.)    *)
(* APA_Ind.tla fixes the sizes (Apalache wants constant ranges).  The      *)
(* module is tied to the rest of the tower by TLC: MC_ImplInd.tla checks   *)
(* that SodgImpl (Rules = "fixed"), which in turn refines Sodg and is what *)
(* the real code is compared with slot by slot, refines this module.       *)
(***************************************************************************)
EXTENDS Integers, FiniteSets

CONSTANTS
  \* @type: Int;
  Cap,
  \* @type: Int;
  NSlots,
  \* @type: Int;
  SlotSize
Ids == 0..(Cap - 1)
Slots == 0..(NSlots - 1)
Pers == {"empty", "stored", "taken"}

VARIABLES
  \* @type: Int -> Int;
  tag,
  \* @type: Int -> Str;
  pers,
  \* @type: Int -> Set(Int);
  members,
  \* @type: Int -> Int;
  counter,
  \* @type: Str;
  last

Init ==
  /\ tag = [v \in Ids |-> 0]
  /\ pers = [v \in Ids |-> "empty"]
  /\ members = [s \in Slots |-> IF s < 2 THEN {0} ELSE {}]
  /\ counter = [s \in Slots |-> 0]
  /\ last = "init"

Carry(v) == IF pers[v] = "stored" THEN 1 ELSE 0

Add(v) ==
  /\ IF tag[v] = 0
     THEN tag' = [tag EXCEPT ![v] = 1] /\ pers' = [pers EXCEPT ![v] = "empty"]
     ELSE UNCHANGED <<tag, pers>>
  /\ UNCHANGED <<members, counter>> /\ last' = "add"

Bind(v1, v2) ==
  /\ tag[v1] # 0 /\ tag[v2] # 0 /\ v1 # v2
  /\ LET ours == tag[v1]  theirs == tag[v2] IN
     IF ours = 1 /\ theirs = 1 THEN
        \E s \in Slots :
          /\ s >= 2 /\ members[s] = {} /\ \A t \in Slots : (t >= 2 /\ members[t] = {}) => s <= t
          /\ tag' = [tag EXCEPT ![v1] = s, ![v2] = s]
          /\ members' = [members EXCEPT ![s] = {v1, v2}]
          /\ counter' = [counter EXCEPT ![s] = counter[s] + Carry(v1) + Carry(v2)]
     ELSE IF ours = 1 THEN
        /\ Cardinality(members[theirs]) < SlotSize
        /\ tag' = [tag EXCEPT ![v1] = theirs]
        /\ members' = [members EXCEPT ![theirs] = members[theirs] \cup {v1}]
        /\ counter' = [counter EXCEPT ![theirs] = counter[theirs] + Carry(v1)]
     ELSE IF theirs = 1 THEN
        /\ Cardinality(members[ours]) < SlotSize
        /\ tag' = [tag EXCEPT ![v2] = ours]
        /\ members' = [members EXCEPT ![ours] = members[ours] \cup {v2}]
        /\ counter' = [counter EXCEPT ![ours] = counter[ours] + Carry(v2)]
     ELSE UNCHANGED <<tag, members, counter>>
  /\ UNCHANGED pers /\ last' = "bind"

Put(v) ==
  /\ tag[v] # 0
  /\ pers' = [pers EXCEPT ![v] = "stored"]
  /\ counter' = IF tag[v] >= 2 /\ pers[v] # "stored" THEN [counter EXCEPT ![tag[v]] = counter[tag[v]] + 1] ELSE counter
  /\ UNCHANGED <<tag, members>> /\ last' = "put"

Data(v) ==
  /\ tag[v] # 0 /\ last' = "data"
  /\ IF pers[v] = "stored" THEN
        LET b == tag[v] IN
        /\ pers' = [pers EXCEPT ![v] = "taken"]
        /\ IF b <= 1 THEN UNCHANGED <<tag, members, counter>>
           ELSE /\ counter[b] > 0                          \* the code panics on underflow; NoUnderflow shows it cannot
                /\ counter' = [counter EXCEPT ![b] = counter[b] - 1]
                /\ IF counter[b] = 1
                   THEN /\ tag' = [u \in Ids |-> IF u \in members[b] THEN 0 ELSE tag[u]]
                        /\ members' = [members EXCEPT ![b] = {}]
                   ELSE UNCHANGED <<tag, members>>
     ELSE UNCHANGED <<pers, tag, members, counter>>

\* every call that does not touch the collector's state (next_id, kid, kids, ...)
Other == UNCHANGED <<tag, pers, members, counter>> /\ last' = "other"

Next == \/ \E v \in Ids : Add(v) \/ Put(v) \/ Data(v)
        \/ \E v1 \in Ids, v2 \in Ids : Bind(v1, v2)
        \/ Other
vars == <<tag, pers, members, counter, last>>
Spec == Init /\ [][Next]_vars

(* ---------------------------- the invariant ---------------------------- *)
TypeOK ==
  /\ tag \in [Ids -> Slots]
  /\ pers \in [Ids -> Pers]
  /\ members \in [Slots -> SUBSET Ids]
  /\ counter \in [Slots -> 0..Cap]
  /\ last \in {"init", "add", "bind", "put", "data", "other"}
Unread(s) == {v \in members[s] : pers[v] = "stored"}
CounterIsRecount == \A s \in Slots : s >= 2 => counter[s] = Cardinality(Unread(s))
TagsMatchLists == /\ \A v \in Ids : tag[v] >= 2 => v \in members[tag[v]]
                  /\ \A s \in Slots : s >= 2 => \A v \in members[s] : tag[v] = s
ReservedKept == members[0] = {0} /\ members[1] = {0} /\ counter[0] = 0 /\ counter[1] = 0
SizesKept == \A s \in Slots : s >= 2 => Cardinality(members[s]) <= SlotSize /\ Cardinality(members[s]) # 1
IndInv == TypeOK /\ CounterIsRecount /\ TagsMatchLists /\ ReservedKept /\ SizesKept
IndInit == IndInv

(* --------------------- action properties (C01 / C02) -------------------- *)
\* the subtraction in data() cannot underflow from any state that satisfies the invariant
NoUnderflow == \A v \in Ids : (tag[v] >= 2 /\ pers[v] = "stored") => counter[tag[v]] > 0
\* C01 + C02 from any state: vertices disappear only in data(), all of them are one whole group, the group had exactly
\* one unread datum, and (conversely) a read of the last unread datum of a group removes the whole group
Died == {v \in Ids : tag[v] # 0 /\ tag'[v] = 0}
DiesOnlyByLastRead ==
  /\ Died # {} => /\ last' = "data"
                  /\ \E s \in Slots : s >= 2 /\ Died = members[s] /\ Cardinality(Unread(s)) = 1
                                      /\ \A v \in members[s] : pers'[v] # "stored"
  /\ (last' = "data" /\ \E s \in Slots : s >= 2 /\ members[s] # {} /\ Unread(s) # {} /\ \A v \in members[s] : pers'[v] # "stored")
       => Died # {}
=============================================================================
