------------------------------- MODULE Hex -------------------------------
(***************************************************************************)
(* The helper "machine" of C15 / C16: a Hex IS its byte string.  Every     *)
(* accessor is a function of the byte sequence alone; the six range kinds  *)
(* panic exactly when the same range on a slice of that length would.      *)
(* TLC enumerates the bounded input space and prints one vector per case   *)
(* (HexGen); mismatches observed on the real code in any of its four       *)
(* representations are judged by HexJudge with the same operators.         *)
(* usize::MAX is the model value Max (written -1 in the vectors).          *)
(***************************************************************************)
EXTENDS Naturals, Integers, Sequences, TLC
Max == 1000000                       \* stands for usize::MAX
Panic == [k |-> "panic"]
Err == [k |-> "err"]
Bytes(s) == [k |-> "bytes", v |-> s]
Sub(s, from, to) == [i \in 1..(to - from) |-> s[from + i]]      \* s[from..to), 0-based bounds

Index(s, i) == IF i < Len(s) THEN [k |-> "byte", v |-> s[i + 1]] ELSE Panic
RangeOf(s, a, b) == IF a > b \/ b > Len(s) THEN Panic ELSE Bytes(Sub(s, a, b))                 \* a..b
RangeFrom(s, a) == IF a > Len(s) THEN Panic ELSE Bytes(Sub(s, a, Len(s)))                      \* a..
RangeFull(s) == Bytes(s)                                                                      \* ..
RangeIncl(s, a, b) == IF b = Max THEN Panic ELSE RangeOf(s, a, b + 1)                         \* a..=b
\* a..=b after it was iterated to its end (the value keeps a hidden "exhausted" state): as an index it is the empty
\* slice at b+1 - or a panic when b+1 lies beyond the end; an empty range (a > b) iterates nothing and stays what it was
RangeInclSpent(s, a, b) == IF b = Max \/ a > b THEN RangeIncl(s, a, b) ELSE RangeOf(s, b + 1, b + 1)
RangeTo(s, b) == IF b > Len(s) THEN Panic ELSE Bytes(Sub(s, 0, b))                             \* ..b
RangeToIncl(s, b) == IF b = Max THEN Panic ELSE RangeTo(s, b + 1)                              \* ..=b
TailOf(s, k) == IF k > Len(s) THEN Panic ELSE Bytes(Sub(s, k, Len(s)))
SetByte(s, i, b) == IF i < Len(s) THEN Bytes([s EXCEPT ![i + 1] = b]) ELSE Panic              \* IndexMut
Concat(a, b) == a \o b
ToBool(s) == IF Len(s) = 0 THEN Panic ELSE [k |-> "bool", v |-> s[1] = 1]
To64(s) == IF Len(s) = 8 THEN [k |-> "be8", v |-> s] ELSE Err                                 \* to_i64 / to_f64: the 8 bytes, big endian

Digit == <<"0", "1", "2", "3", "4", "5", "6", "7", "8", "9", "A", "B", "C", "D", "E", "F">>
PrintByte(b) == Digit[(b \div 16) + 1] \o Digit[(b % 16) + 1]
RECURSIVE PrintFrom(_, _)
PrintFrom(s, i) == IF i > Len(s) THEN "" ELSE (IF i > 1 THEN "-" ELSE "") \o PrintByte(s[i]) \o PrintFrom(s, i + 1)
PrintHex(s) == IF Len(s) = 0 THEN "--" ELSE PrintFrom(s, 1)

\* C16's recorded defect (known finding D6): an INLINE receiver shorter than 8 bytes whose result spills
\* to the heap copies all 8 bytes of its array: a ++ (array bytes |a|..8) ++ b.  Nothing else is excused.
KnownConcatPadding(a, ainline, araw, b, observed) ==
  /\ ainline /\ Len(a) < 8 /\ Len(a) + Len(b) > 8
  /\ observed = a \o Sub(araw, Len(a), 8) \o b
=============================================================================
