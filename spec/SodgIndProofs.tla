--------------------------- MODULE SodgIndProofs ---------------------------
(***************************************************************************)
(* TLAPS (tlapm 1.6, SMT/Zenon/Isabelle back ends, PTL for the two []):    *)
(* the representation invariant of SodgInd.tla is inductive for ALL sizes  *)
(* (any capacity >= 1, any number of slots >= 2, any slot size), and with  *)
(* it C01/C02 at the level of the counter rules:                           *)
(*   TInvAlways, CInvAlways   Spec => [](tags = member lists /\ counter =   *)
(*                            number of unread members)                    *)
(*   NoUnderflowT             the subtraction in data() cannot underflow   *)
(*   DiesAsAWholeList         vertices disappear only in data(), and those *)
(*                            that do are exactly the member list of the   *)
(*                            slot of the vertex read                      *)
(*   ExactDeath               ... and that list held exactly one unread    *)
(*                            datum, the one just read; conversely the     *)
(*                            read that leaves a group without unread data *)
(*                            removes it (DiesOnlyByLastRead of SodgInd)   *)
(* 423 obligations, about 2 minutes from scratch (tools/tlaps_ind.sh, which *)
(* also runs a probe that must FAIL: data() clearing the member list       *)
(* without resetting the tags).  Apalache discharges the same statements   *)
(* at fixed sizes independently (tools/apalache_ind.sh); TLC checks that   *)
(* SodgImpl refines SodgInd (MC_ImplInd) and the engines E2/E3 compare the *)
(* real code with SodgImpl's state slot by slot.                           *)
(***************************************************************************)
EXTENDS SodgInd, FiniteSetTheorems, TLAPS

ASSUME Sizes == Cap \in Nat /\ NSlots \in Nat /\ SlotSize \in Nat /\ NSlots >= 2 /\ Cap >= 1

TypeT == /\ tag \in [Ids -> Slots]
         /\ pers \in [Ids -> Pers]
         /\ members \in [Slots -> SUBSET Ids]
         /\ counter \in [Slots -> Nat]
TInv == TypeT /\ TagsMatchLists

LEMMA InitT == Init => TInv
  BY Sizes DEF Init, TInv, TypeT, TagsMatchLists, Ids, Slots, Pers

LEMMA AddT == ASSUME TInv, NEW v \in Ids, Add(v) PROVE TInv'
  BY Sizes DEF Add, TInv, TypeT, TagsMatchLists, Ids, Slots, Pers

LEMMA PutT == ASSUME TInv, NEW v \in Ids, Put(v) PROVE TInv'
  BY Sizes DEF Put, TInv, TypeT, TagsMatchLists, Ids, Slots, Pers

LEMMA DataT == ASSUME TInv, NEW v \in Ids, Data(v) PROVE TInv'
  BY Sizes DEF Data, TInv, TypeT, TagsMatchLists, Ids, Slots, Pers

LEMMA BindT == ASSUME TInv, NEW v1 \in Ids, NEW v2 \in Ids, Bind(v1, v2) PROVE TInv'
  BY Sizes DEF Bind, Carry, TInv, TypeT, TagsMatchLists, Ids, Slots, Pers

LEMMA OtherT == ASSUME TInv, Other PROVE TInv'
  BY DEF Other, TInv, TypeT, TagsMatchLists

THEOREM TInvInductive == TInv /\ [Next]_vars => TInv'
  <1> SUFFICES ASSUME TInv, [Next]_vars PROVE TInv' OBVIOUS
  <1>1 CASE UNCHANGED vars BY <1>1 DEF vars, TInv, TypeT, TagsMatchLists
  <1>2 CASE Next BY <1>2, AddT, PutT, DataT, BindT, OtherT DEF Next
  <1> QED BY <1>1, <1>2

THEOREM TInvAlways == Spec => []TInv
  BY InitT, TInvInductive, PTL DEF Spec

\* C01/C02, structural half, from any state satisfying TInv, for all sizes
DiedSet == {v \in Ids : tag[v] # 0 /\ tag'[v] = 0}
WholeListOnly ==
  DiedSet # {} => \E v \in Ids : /\ Data(v) /\ pers[v] = "stored" /\ tag[v] >= 2
                                 /\ DiedSet = members[tag[v]] /\ v \in DiedSet
THEOREM DiesAsAWholeList == TInv /\ [Next]_vars => WholeListOnly
  <1> SUFFICES ASSUME TInv, [Next]_vars, DiedSet # {} PROVE \E v \in Ids : Data(v) /\ pers[v] = "stored" /\ tag[v] >= 2 /\ DiedSet = members[tag[v]] /\ v \in DiedSet
    BY DEF WholeListOnly
  <1>1 CASE UNCHANGED vars BY <1>1 DEF vars, DiedSet
  <1>2 ASSUME NEW v \in Ids, Add(v) PROVE FALSE BY <1>2 DEF Add, DiedSet, TInv, TypeT, Ids, Slots
  <1>3 ASSUME NEW v \in Ids, Put(v) PROVE FALSE BY <1>3 DEF Put, DiedSet
  <1>4 ASSUME Other PROVE FALSE BY <1>4 DEF Other, DiedSet
  <1>5 ASSUME NEW v1 \in Ids, NEW v2 \in Ids, Bind(v1, v2) PROVE FALSE
    BY <1>5, Sizes DEF Bind, DiedSet, TInv, TypeT, TagsMatchLists, Ids, Slots
  <1>6 ASSUME NEW v \in Ids, Data(v) PROVE Data(v) /\ pers[v] = "stored" /\ tag[v] >= 2 /\ DiedSet = members[tag[v]] /\ v \in DiedSet
    BY <1>6, Sizes DEF Data, DiedSet, TInv, TypeT, TagsMatchLists, Ids, Slots
  <1> QED BY <1>1, <1>2, <1>3, <1>4, <1>5, <1>6 DEF Next
(* ------------------------------------------------------------------------ *)
(* The counting half: counter[s] = Cardinality(Unread(s)), for ALL sizes.    *)
(* ------------------------------------------------------------------------ *)
CInv == TInv /\ CounterIsRecount

LEMMA FinSub == ASSUME NEW T \in SUBSET Ids PROVE IsFiniteSet(T)
  <1>1 IsFiniteSet(Ids) BY FS_Interval, Sizes DEF Ids
  <1> QED BY <1>1, FS_Subset

LEMMA InitC == Init => CInv
  <1> SUFFICES ASSUME Init PROVE CInv OBVIOUS
  <1>1 TInv BY InitT
  <1>2 \A s \in Slots : s >= 2 => Unread(s) = {} /\ counter[s] = 0 BY DEF Init, Unread, Slots
  <1> QED BY <1>1, <1>2, FS_EmptySet DEF CInv, CounterIsRecount

LEMMA AddC == ASSUME CInv, NEW v \in Ids, Add(v) PROVE CInv'
  <1>0 TInv' BY AddT DEF CInv
  <1> SUFFICES ASSUME NEW s \in Slots, s >= 2 PROVE counter'[s] = Cardinality(Unread(s)')
    BY <1>0 DEF CInv, CounterIsRecount
  <1>2 Unread(s)' = Unread(s) /\ counter'[s] = counter[s]
    BY Sizes DEF Add, Unread, CInv, TInv, TypeT, TagsMatchLists, Ids, Slots, Pers
  <1> QED BY <1>2 DEF CInv, CounterIsRecount

LEMMA OtherC == ASSUME CInv, Other PROVE CInv'
  BY OtherT DEF Other, CInv, CounterIsRecount, Unread

LEMMA PutC == ASSUME CInv, NEW v \in Ids, Put(v) PROVE CInv'
  <1>0 TInv' BY PutT DEF CInv
  <1> SUFFICES ASSUME NEW s \in Slots, s >= 2 PROVE counter'[s] = Cardinality(Unread(s)')
    BY <1>0 DEF CInv, CounterIsRecount
  <1>2 IsFiniteSet(Unread(s)) /\ counter[s] = Cardinality(Unread(s)) /\ counter[s] \in Nat
    <2>1 Unread(s) \in SUBSET Ids BY DEF Unread, CInv, TInv, TypeT
    <2>2 IsFiniteSet(Unread(s)) BY <2>1, FinSub
    <2>3 counter[s] = Cardinality(Unread(s)) BY DEF CInv, CounterIsRecount
    <2>4 Cardinality(Unread(s)) \in Nat BY <2>2, FS_CardinalityType
    <2> QED BY <2>2, <2>3, <2>4
  <1>3 CASE tag[v] = s /\ pers[v] # "stored"
    <2>1 Unread(s)' = Unread(s) \cup {v} /\ v \notin Unread(s)
      BY <1>3, Sizes DEF Put, Unread, CInv, TInv, TypeT, TagsMatchLists, Ids, Slots, Pers
    <2>2 counter'[s] = counter[s] + 1
      BY <1>3, Sizes DEF Put, CInv, TInv, TypeT, Ids, Slots
    <2> QED BY <2>1, <2>2, <1>2, FS_AddElement
  <1>4 CASE ~(tag[v] = s /\ pers[v] # "stored")
    <2>1 Unread(s)' = Unread(s)
      BY <1>4, Sizes DEF Put, Unread, CInv, TInv, TypeT, TagsMatchLists, Ids, Slots, Pers
    <2>2 counter'[s] = counter[s]
      BY <1>4, Sizes DEF Put, CInv, TInv, TypeT, Ids, Slots
    <2> QED BY <2>1, <2>2, <1>2
  <1> QED BY <1>3, <1>4

LEMMA DataC == ASSUME CInv, NEW v \in Ids, Data(v) PROVE CInv'
  <1>0 TInv' BY DataT DEF CInv
  <1> SUFFICES ASSUME NEW s \in Slots, s >= 2 PROVE counter'[s] = Cardinality(Unread(s)')
    BY <1>0 DEF CInv, CounterIsRecount
  <1>2 IsFiniteSet(Unread(s)) /\ counter[s] = Cardinality(Unread(s)) /\ counter[s] \in Nat
    <2>1 Unread(s) \in SUBSET Ids BY DEF Unread, CInv, TInv, TypeT
    <2>2 IsFiniteSet(Unread(s)) BY <2>1, FinSub
    <2>3 counter[s] = Cardinality(Unread(s)) BY DEF CInv, CounterIsRecount
    <2>4 Cardinality(Unread(s)) \in Nat BY <2>2, FS_CardinalityType
    <2> QED BY <2>2, <2>3, <2>4
  <1>3 CASE pers[v] = "stored" /\ tag[v] = s /\ counter[s] = 1
    <2>1 Unread(s)' = {} /\ counter'[s] = 0
      BY <1>3, Sizes DEF Data, Unread, CInv, TInv, TypeT, TagsMatchLists, Ids, Slots, Pers
    <2> QED BY <2>1, FS_EmptySet
  <1>4 CASE pers[v] = "stored" /\ tag[v] = s /\ counter[s] # 1
    <2>1 Unread(s)' = Unread(s) \ {v} /\ v \in Unread(s)
      BY <1>4, Sizes DEF Data, Unread, CInv, TInv, TypeT, TagsMatchLists, Ids, Slots, Pers
    <2>2 counter'[s] = counter[s] - 1
      BY <1>4, Sizes DEF Data, CInv, TInv, TypeT, Ids, Slots
    <2> QED BY <2>1, <2>2, <1>2, FS_RemoveElement
  <1>5 CASE ~(pers[v] = "stored" /\ tag[v] = s)
    <2>1 Unread(s)' = Unread(s) /\ counter'[s] = counter[s]
      BY <1>5, Sizes DEF Data, Unread, CInv, TInv, TypeT, TagsMatchLists, Ids, Slots, Pers
    <2> QED BY <2>1, <1>2
  <1> QED BY <1>3, <1>4, <1>5

LEMMA PairCard == ASSUME NEW a, NEW b, a # b, NEW S \in SUBSET {a, b}
                  PROVE Cardinality(S) = (IF a \in S THEN 1 ELSE 0) + (IF b \in S THEN 1 ELSE 0)
  <1>1 CASE a \in S /\ b \in S
    <2>1 S = {a} \cup {b} BY <1>1
    <2> QED BY <2>1, <1>1, FS_Singleton, FS_AddElement
  <1>2 CASE a \in S /\ b \notin S
    <2>1 S = {a} BY <1>2
    <2> QED BY <2>1, <1>2, FS_Singleton
  <1>3 CASE a \notin S /\ b \in S
    <2>1 S = {b} BY <1>3
    <2> QED BY <2>1, <1>3, FS_Singleton
  <1>4 CASE a \notin S /\ b \notin S
    <2>1 S = {} BY <1>4
    <2> QED BY <2>1, <1>4, FS_EmptySet
  <1> QED BY <1>1, <1>2, <1>3, <1>4

LEMMA BindC == ASSUME CInv, NEW v1 \in Ids, NEW v2 \in Ids, Bind(v1, v2) PROVE CInv'
  <1>0 TInv' BY BindT DEF CInv
  <1> SUFFICES ASSUME NEW s \in Slots, s >= 2 PROVE counter'[s] = Cardinality(Unread(s)')
    BY <1>0 DEF CInv, CounterIsRecount
  <1>2 IsFiniteSet(Unread(s)) /\ counter[s] = Cardinality(Unread(s)) /\ counter[s] \in Nat
    <2>1 Unread(s) \in SUBSET Ids BY DEF Unread, CInv, TInv, TypeT
    <2>2 IsFiniteSet(Unread(s)) BY <2>1, FinSub
    <2>3 counter[s] = Cardinality(Unread(s)) BY DEF CInv, CounterIsRecount
    <2>4 Cardinality(Unread(s)) \in Nat BY <2>2, FS_CardinalityType
    <2> QED BY <2>2, <2>3, <2>4
  <1>p pers' = pers BY DEF Bind
  <1>3 CASE tag[v1] = 1 /\ tag[v2] = 1 /\ members[s] = {} /\ tag'[v1] = s
    \* the new group takes slot s
    <2>1 members'[s] = {v1, v2} /\ counter'[s] = counter[s] + Carry(v1) + Carry(v2) /\ v1 # v2
      BY <1>3, Sizes DEF Bind, CInv, TInv, TypeT, TagsMatchLists, Ids, Slots
    <2>2 Unread(s) = {} BY <1>3 DEF Unread
    <2>3 counter[s] = 0 BY <2>2, <1>2, FS_EmptySet
    <2>4 Unread(s)' = {u \in {v1, v2} : pers[u] = "stored"} BY <2>1, <1>p DEF Unread
    <2>5 Cardinality({u \in {v1, v2} : pers[u] = "stored"}) = Carry(v1) + Carry(v2)
      <3> DEFINE S == {u \in {v1, v2} : pers[u] = "stored"}
      <3>1 S \in SUBSET {v1, v2} OBVIOUS
      <3>2 Cardinality(S) = (IF v1 \in S THEN 1 ELSE 0) + (IF v2 \in S THEN 1 ELSE 0)
        BY <2>1, <3>1, PairCard
      <3>3 (v1 \in S <=> pers[v1] = "stored") /\ (v2 \in S <=> pers[v2] = "stored") OBVIOUS
      <3> QED BY <3>2, <3>3 DEF Carry
    <2> QED BY <2>1, <2>3, <2>4, <2>5 DEF Carry
  <1>4 CASE tag[v1] = 1 /\ tag[v2] = s
    \* v1 joins the group of v2
    <2>1 members'[s] = members[s] \cup {v1} /\ counter'[s] = counter[s] + Carry(v1) /\ v1 \notin members[s]
      BY <1>4, Sizes DEF Bind, CInv, TInv, TypeT, TagsMatchLists, Ids, Slots
    <2>2 CASE pers[v1] = "stored"
      <3>1 Unread(s)' = Unread(s) \cup {v1} /\ v1 \notin Unread(s) BY <2>1, <2>2, <1>p DEF Unread
      <3> QED BY <3>1, <2>1, <2>2, <1>2, FS_AddElement DEF Carry
    <2>3 CASE pers[v1] # "stored"
      <3>1 Unread(s)' = Unread(s) BY <2>1, <2>3, <1>p DEF Unread
      <3> QED BY <3>1, <2>1, <2>3, <1>2 DEF Carry
    <2> QED BY <2>2, <2>3
  <1>5 CASE tag[v1] = s /\ tag[v2] = 1
    <2>1 members'[s] = members[s] \cup {v2} /\ counter'[s] = counter[s] + Carry(v2) /\ v2 \notin members[s]
      BY <1>5, Sizes DEF Bind, CInv, TInv, TypeT, TagsMatchLists, Ids, Slots
    <2>2 CASE pers[v2] = "stored"
      <3>1 Unread(s)' = Unread(s) \cup {v2} /\ v2 \notin Unread(s) BY <2>1, <2>2, <1>p DEF Unread
      <3> QED BY <3>1, <2>1, <2>2, <1>2, FS_AddElement DEF Carry
    <2>3 CASE pers[v2] # "stored"
      <3>1 Unread(s)' = Unread(s) BY <2>1, <2>3, <1>p DEF Unread
      <3> QED BY <3>1, <2>1, <2>3, <1>2 DEF Carry
    <2> QED BY <2>2, <2>3
  <1>6 CASE ~(tag[v1] = 1 /\ tag[v2] = 1 /\ members[s] = {} /\ tag'[v1] = s) /\ ~(tag[v1] = 1 /\ tag[v2] = s) /\ ~(tag[v1] = s /\ tag[v2] = 1)
    <2>1 members'[s] = members[s] /\ counter'[s] = counter[s]
      BY <1>6, Sizes DEF Bind, CInv, TInv, TypeT, TagsMatchLists, Ids, Slots
    <2>2 Unread(s)' = Unread(s) BY <2>1, <1>p DEF Unread
    <2> QED BY <2>1, <2>2, <1>2
  <1> QED BY <1>3, <1>4, <1>5, <1>6

THEOREM CInvInductive == CInv /\ [Next]_vars => CInv'
  <1> SUFFICES ASSUME CInv, [Next]_vars PROVE CInv' OBVIOUS
  <1>1 CASE UNCHANGED vars BY <1>1 DEF vars, CInv, TInv, TypeT, TagsMatchLists, CounterIsRecount, Unread
  <1>2 CASE Next BY <1>2, AddC, PutC, DataC, BindC, OtherC DEF Next
  <1> QED BY <1>1, <1>2

THEOREM CInvAlways == Spec => []CInv
  BY InitC, CInvInductive, PTL DEF Spec

\* the subtraction in data() cannot underflow, and a group is removed exactly when its last unread datum is read (C02)
THEOREM NoUnderflowT == CInv => NoUnderflow
  <1> SUFFICES ASSUME CInv, NEW v \in Ids, tag[v] >= 2, pers[v] = "stored" PROVE counter[tag[v]] > 0
    BY DEF NoUnderflow
  <1>1 tag[v] \in Slots /\ v \in Unread(tag[v]) BY DEF CInv, TInv, TypeT, TagsMatchLists, Unread
  <1>2 IsFiniteSet(Unread(tag[v])) BY <1>1, FinSub DEF Unread, CInv, TInv, TypeT
  <1>3 Cardinality(Unread(tag[v])) \in Nat /\ Cardinality(Unread(tag[v])) # 0 BY <1>1, <1>2, FS_EmptySet, FS_CardinalityType
  <1> QED BY <1>1, <1>3 DEF CInv, CounterIsRecount
\* C02, exactness, for ALL sizes: (1) vertices disappear only in data(), as one whole member list whose unread data numbered
\* exactly one (the datum just read), and (2) conversely the read that leaves a group without unread data removes it
THEOREM ExactDeath == CInv /\ [Next]_vars => DiesOnlyByLastRead
  <1> SUFFICES ASSUME CInv, [Next]_vars PROVE DiesOnlyByLastRead OBVIOUS
  <1>t TInv BY DEF CInv
  <1>d Died = DiedSet BY DEF Died, DiedSet
  <1>1 ASSUME Died # {}
       PROVE  /\ last' = "data"
              /\ \E s \in Slots : s >= 2 /\ Died = members[s] /\ Cardinality(Unread(s)) = 1
                                   /\ \A v \in members[s] : pers'[v] # "stored"
    <2>1 PICK v \in Ids : Data(v) /\ pers[v] = "stored" /\ tag[v] >= 2 /\ DiedSet = members[tag[v]] /\ v \in DiedSet
      BY <1>1, <1>d, <1>t, DiesAsAWholeList DEF WholeListOnly
    <2> DEFINE s == tag[v]
    <2>2 s \in Slots /\ s >= 2 /\ last' = "data" BY <2>1, <1>t DEF Data, TInv, TypeT
    <2>3 counter[s] = 1
      BY <2>1, <2>2, <1>t, Sizes DEF Data, DiedSet, TInv, TypeT, TagsMatchLists, Ids, Slots
    <2>4 Unread(s) \in SUBSET Ids /\ v \in Unread(s) BY <2>1, <2>2, <1>t DEF Unread, TInv, TypeT, TagsMatchLists, DiedSet
    <2>5 IsFiniteSet(Unread(s)) /\ Cardinality(Unread(s)) = 1 BY <2>2, <2>3, <2>4, FinSub DEF CInv, CounterIsRecount
    <2>6 Unread(s) = {v} BY <2>4, <2>5, FS_Singleton
    <2>7 \A u \in members[s] : pers'[u] # "stored"
      BY <2>1, <2>6, <1>t DEF Data, Unread, TInv, TypeT, Pers
    <2> QED BY <2>1, <2>2, <2>5, <2>7, <1>d
  <1>2 ASSUME last' = "data", NEW s \in Slots, s >= 2, members[s] # {}, Unread(s) # {}, \A v \in members[s] : pers'[v] # "stored"
       PROVE  Died # {}
    <2>1 CASE UNCHANGED vars BY <2>1, <1>2 DEF vars, Unread
    <2>2 ASSUME NEW v \in Ids, Add(v) PROVE FALSE BY <2>2, <1>2 DEF Add
    <2>3 ASSUME NEW v \in Ids, Put(v) PROVE FALSE BY <2>3, <1>2 DEF Put
    <2>4 ASSUME Other PROVE FALSE BY <2>4, <1>2 DEF Other
    <2>5 ASSUME NEW v1 \in Ids, NEW v2 \in Ids, Bind(v1, v2) PROVE FALSE BY <2>5, <1>2 DEF Bind
    <2>6 ASSUME NEW v \in Ids, Data(v) PROVE Died # {}
      <3>1 PICK u \in members[s] : pers[u] = "stored" BY <1>2 DEF Unread
      <3>2 u = v /\ pers[v] = "stored" BY <3>1, <2>6, <1>2, <1>t DEF Data, TInv, TypeT, Pers
      <3>3 tag[v] = s BY <3>1, <3>2, <1>2, <1>t DEF TInv, TagsMatchLists
      <3>4 Unread(s) = {v} BY <3>1, <3>2, <2>6, <1>2, <1>t DEF Data, Unread, TInv, TypeT, Pers
      <3>5 counter[s] = 1 BY <3>4, <1>2, FS_Singleton DEF CInv, CounterIsRecount
      <3>6 tag'[v] = 0 BY <3>2, <3>3, <3>5, <2>6, <1>2, <1>t, Sizes DEF Data, TInv, TypeT, TagsMatchLists, Ids, Slots
      <3> QED BY <3>3, <3>6, <1>2 DEF Died
    <2> QED BY <2>1, <2>2, <2>3, <2>4, <2>5, <2>6 DEF Next
  <1> QED BY <1>1, <1>2 DEF DiesOnlyByLastRead
=============================================================================
