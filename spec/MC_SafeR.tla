----------------------------- MODULE MC_SafeR -----------------------------
(* E1 for C01 on the restricted alphabets of SodgR (4-5 ids: several groups alive, cross-group edges, so that a link class
   is strictly larger than a group): the exact model with the two history variables refines SodgSafe. *)
EXTENDS SodgR
VARIABLES hlink, hbound
hvars == <<g, ev, hlink, hbound>>
hview == <<g, hlink, hbound>>
HClassOf(v) == IF \E C \in hlink : v \in C THEN CHOOSE C \in hlink : v \in C ELSE {v}
HDrop(L, R) == {C \ R : C \in {D \in L : D \ R # {}}}
HInit == Init /\ hlink = {} /\ hbound = {}
HNext ==
  /\ NextR
  /\ LET gone == g.present \ g'.present IN
     CASE ev'.op = "add" /\ ev'.v \notin g.present ->
            hlink' = HDrop(hlink, {ev'.v}) /\ hbound' = hbound \ {ev'.v}
       [] ev'.op = "bind" ->
            LET C == HClassOf(ev'.v1) \cup HClassOf(ev'.v2) IN
            hlink' = {D \in hlink : D \cap C = {}} \cup {C} /\ hbound' = hbound \cup {ev'.v1, ev'.v2}
       [] ev'.op = "data" -> hlink' = HDrop(hlink, gone) /\ hbound' = hbound \ gone
       [] OTHER -> UNCHANGED <<hlink, hbound>>
HSpec == HInit /\ [][HNext]_hvars
Safe == INSTANCE SodgSafe WITH present <- g.present, unread <- Unread(g), link <- hlink, bound <- hbound
RefinesSafe == Safe!SSpec
\* every group lies inside one link class and consists of bound vertices
GroupsAreLinked == \A G \in g.groups : G \subseteq hbound /\ \E C \in hlink : G \subseteq C
=============================================================================
