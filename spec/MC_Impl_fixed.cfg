SPECIFICATION ISpec
VIEW iview
CONSTANTS Cap = 3 Labels = {"a"} Vals = {"x"} MaxN = 1 NSlots = 4 SlotSize = 3 Rules = "fixed"
INVARIANT NoPanic
INVARIANT CounterIsRecount
INVARIANT TagsMatchLists
INVARIANT ReservedKept
INVARIANT OccupiedIsGroups
INVARIANT NoDuplicateMembers
PROPERTY RefinesSodg
CHECK_DEADLOCK FALSE
