---------------------------- MODULE SodgCore ----------------------------
(***************************************************************************)
(* Pure operators over a graph RECORD.  This is the exact abstract model   *)
(* of one Sodg<N> object: what the 20 properties call "the graph".  Every  *)
(* other module (Sodg, World, Trace, SodgImpl's refinement target, the     *)
(* merge / slice / script enumerators) is built from these operators, so   *)
(* there is a single definition of "what is right".                        *)
(*                                                                         *)
(*   cap      vertex capacity given to empty()                             *)
(*   present  set of present ids  (keys())                                 *)
(*   edges    v -> sequence of <<label, target>>, labels distinct,         *)
(*            insertion order, overwrite in place (kids(v))                *)
(*   val      v -> data token or NoVal                                     *)
(*   st       v -> "empty" | "stored" (put, unread) | "taken" (read)       *)
(*   groups   set of disjoint sets of present ids (the GC partition);      *)
(*            deliberately no slot numbers and no member order             *)
(*   nextv    allocator position                                           *)
(*                                                                         *)
(* Dead (absent) vertices are canonically blank.                           *)
(***************************************************************************)
EXTENDS Naturals, Integers, FiniteSets, Sequences, TLC

CONSTANTS MaxN,          \* edge capacity N of Sodg<N>
          MaxGroups,     \* 14 in the code (16 member lists, two reserved)
          MaxGroupSize   \* 16 in the code

NoVal == "none"
None  == -1

IdsOf(g) == 0..(g.cap - 1)

EmptyG(cap) ==
  [cap |-> cap, present |-> {},
   edges |-> [v \in 0..(cap - 1) |-> <<>>],
   val |-> [v \in 0..(cap - 1) |-> NoVal],
   st |-> [v \in 0..(cap - 1) |-> "empty"],
   groups |-> {}, nextv |-> 0]

GroupOf(g, v) == IF \E G \in g.groups : v \in G THEN CHOOSE G \in g.groups : v \in G ELSE {}
Idx(s, a) == IF \E i \in 1..Len(s) : s[i][1] = a THEN CHOOSE i \in 1..Len(s) : s[i][1] = a ELSE 0
KidOf(g, v, a) == LET i == Idx(g.edges[v], a) IN IF i = 0 THEN None ELSE g.edges[v][i][2]
LabelsOf(g, v) == {g.edges[v][i][1] : i \in 1..Len(g.edges[v])}
TargetsOf(g, v) == {g.edges[v][i][2] : i \in 1..Len(g.edges[v])}
SetEdge(s, a, t) == LET i == Idx(s, a) IN IF i = 0 THEN Append(s, <<a, t>>) ELSE [s EXCEPT ![i] = <<a, t>>]
Unread(g) == {v \in g.present : g.st[v] = "stored"}

(* ----------------------------- add ------------------------------------ *)
AddOk(g, v) == v \in IdsOf(g)
AddOp(g, v) == IF v \in g.present THEN g ELSE [g EXCEPT !.present = @ \cup {v}]

(* ----------------------------- bind ----------------------------------- *)
BindOk(g, v1, v2, a) ==
  /\ v1 \in g.present /\ v2 \in g.present /\ v1 # v2
  /\ Idx(g.edges[v1], a) # 0 \/ Len(g.edges[v1]) < MaxN
  /\ LET g1 == GroupOf(g, v1)  g2 == GroupOf(g, v2) IN
     /\ (g1 = {} /\ g2 = {}) => Cardinality(g.groups) < MaxGroups
     /\ (g1 = {} /\ g2 # {}) => Cardinality(g2) < MaxGroupSize
     /\ (g1 # {} /\ g2 = {}) => Cardinality(g1) < MaxGroupSize
BindOp(g, v1, v2, a) ==
  LET g1 == GroupOf(g, v1)  g2 == GroupOf(g, v2)
      gs == IF g1 = {} /\ g2 = {} THEN g.groups \cup {{v1, v2}}
            ELSE IF g1 = {} THEN (g.groups \ {g2}) \cup {g2 \cup {v1}}
            ELSE IF g2 = {} THEN (g.groups \ {g1}) \cup {g1 \cup {v2}}
            ELSE g.groups
  IN [g EXCEPT !.edges[v1] = SetEdge(@, a, v2), !.groups = gs]

(* ----------------------------- put / data ----------------------------- *)
PutOk(g, v) == v \in g.present
PutOp(g, v, d) == [g EXCEPT !.val[v] = d, !.st[v] = "stored"]

DataOk(g, v) == v \in g.present
DataRet(g, v) == IF g.st[v] = "empty" THEN NoVal ELSE g.val[v]
Blank(g, G) == [g EXCEPT !.st = [u \in DOMAIN @ |-> IF u \in G THEN "empty" ELSE @[u]],
                         !.val = [u \in DOMAIN @ |-> IF u \in G THEN NoVal ELSE @[u]],
                         !.edges = [u \in DOMAIN @ |-> IF u \in G THEN <<>> ELSE @[u]]]
\* the set of vertices the call data(v) collects
Collected(g, v) ==
  IF g.st[v] # "stored" THEN {}
  ELSE LET G == GroupOf(g, v) IN
       IF G # {} /\ \A u \in G \ {v} : g.st[u] # "stored" THEN G ELSE {}
DataOp(g, v) ==
  IF g.st[v] # "stored" THEN g
  ELSE LET G == Collected(g, v)
           g1 == [g EXCEPT !.st[v] = "taken"] IN
       IF G = {} THEN g1
       ELSE Blank([g1 EXCEPT !.present = @ \ G, !.groups = @ \ {GroupOf(g, v)}], G)

(* ----------------------------- reading everything out ----------------- *)
\* C06 ("collection gives capacity back ... no matter how many groups have lived and died before"): what the caller can
\* always do.  Read every unread datum of a group (after putting one on its least member if it holds none): the group
\* dies.  DrainAll does that for every group; Sodg!Recoverable states that from EVERY reachable state it leaves no group
\* alive, removes exactly the grouped vertices and leaves the ungrouped ones as they were.
MinOf(S) == CHOOSE x \in S : \A y \in S : x <= y
RECURSIVE ReadOut(_, _)
ReadOut(g, S) == IF S = {} THEN g ELSE LET v == MinOf(S) IN ReadOut(DataOp(g, v), S \ {v})
DrainGroup(g, G) == LET g1 == IF Unread(g) \cap G = {} THEN PutOp(g, MinOf(G), "drain") ELSE g
                    IN ReadOut(g1, Unread(g1) \cap G)
RECURSIVE DrainAll(_)
DrainAll(g) == IF g.groups = {} THEN g
               ELSE LET G == CHOOSE X \in g.groups : \A Y \in g.groups : MinOf(X) <= MinOf(Y) IN DrainAll(DrainGroup(g, G))

(* ----------------------------- next_id -------------------------------- *)
FreeAbove(g) == {i \in IdsOf(g) : i >= g.nextv /\ i \notin g.present}
NextIdOk(g) == FreeAbove(g) # {}
NextIdOf(g) == LET S == FreeAbove(g) IN CHOOSE i \in S : \A j \in S : i <= j
NextIdOp(g) == [g EXCEPT !.nextv = NextIdOf(g) + 1]

(* ----------------------------- reads ---------------------------------- *)
KidsOf(g, v) == g.edges[v]                       \* ordered, as kids(v) enumerates
EdgeMap(g, v) == [a \in LabelsOf(g, v) |-> KidOf(g, v, a)]

(* ----------------------------- save/load, clone ----------------------- *)
CloneOp(g) == g
ReloadOp(g) == [g EXCEPT !.nextv = 0]            \* the allocator position is not serialized

(* ----------------------------- slice ---------------------------------- *)
\* P(from, to, label) is the caller's predicate
Reach(g, v, P(_, _, _)) ==
  LET Step(R) == R \cup {t \in IdsOf(g) : \E u \in R : \E i \in 1..Len(g.edges[u]) :
                           g.edges[u][i][2] = t /\ P(u, t, g.edges[u][i][1])}
      RECURSIVE F(_)
      F(R) == LET R2 == Step(R) IN IF R2 = R THEN R ELSE F(R2)
  IN F({v})

SetToSeq(S) == LET RECURSIVE F(_)
                   F(T) == IF T = {} THEN <<>>
                           ELSE LET x == CHOOSE y \in T : \A z \in T : y <= z IN <<x>> \o F(T \ {x})
               IN F(S)

\* rebuild as slice_some does: ascending v1, add(v1), every edge to a kept vertex: add(v2); bind(v1,v2,k)
RECURSIVE SliceEdges(_, _, _, _, _), SliceVerts(_, _, _, _)
SliceEdges(ng, g, K, v1, i) ==
  IF i > Len(g.edges[v1]) THEN ng
  ELSE LET k == g.edges[v1][i][1]  v2 == g.edges[v1][i][2] IN
       IF v2 \in K /\ v2 # v1 THEN SliceEdges(BindOp(AddOp(ng, v2), v1, v2, k), g, K, v1, i + 1)
       ELSE SliceEdges(ng, g, K, v1, i + 1)
SliceVerts(ng, g, K, vs) ==
  IF vs = <<>> THEN ng
  ELSE SliceVerts(SliceEdges(AddOp(ng, Head(vs)), g, K, Head(vs), 1), g, K, Tail(vs))
\* inside the stated domain: everything reachable is present, at most 14 vertices, no self loops
SliceOk(g, v, P(_, _, _)) ==
  LET K == Reach(g, v, P) IN
  /\ v \in g.present /\ K \subseteq g.present /\ Cardinality(K) <= MaxGroups
  /\ \A u \in K : u \notin TargetsOf(g, u)
SliceOp(g, v, P(_, _, _)) ==
  LET K == Reach(g, v, P) IN SliceVerts(EmptyG(g.cap), g, K, SetToSeq(K))

(* ----------------------------- merge (tree case) ----------------------- *)
\* transcribed from merge.rs: put, then per edge of `right` in enumeration order
\* kid | mapped | next_id+add+bind, then recurse.  `lim` turns FALSE when a step leaves
\* the limits (no free id, bind outside BindOk); join() is never reached on trees.
\* `log` is the sequence of API calls the merge amounts to ("as if the additions had been made by add/bind/put"):
\* put, next_id (with the id the model obtained), add, bind - in the order merge.rs makes them.
RECURSIVE MergeRec(_, _, _, _, _, _, _), MergeKids(_, _, _, _, _, _, _, _)
MergeRec(g, h, left, right, m, lim, log) ==
  IF ~lim \/ right \in DOMAIN m THEN [g |-> g, m |-> m, lim |-> lim, log |-> log]
  ELSE LET m1 == (right :> left) @@ m
           withdata == h.st[right] # "empty"
           g1 == IF withdata THEN PutOp(g, left, h.val[right]) ELSE g
           log1 == IF withdata THEN Append(log, [op |-> "put", v |-> left, d |-> h.val[right]]) ELSE log
       IN MergeKids(g1, h, left, right, m1, 1, lim, log1)
MergeKids(g, h, left, right, m, i, lim, log) ==
  IF i > Len(h.edges[right]) \/ ~lim THEN [g |-> g, m |-> m, lim |-> lim, log |-> log]
  ELSE LET a == h.edges[right][i][1]
           to == h.edges[right][i][2]
           k == KidOf(g, left, a)
           step == IF to \notin h.present THEN [g |-> g, t |-> None, lim |-> FALSE, log |-> log]   \* dangling edge in h
                   ELSE IF k # None THEN [g |-> g, t |-> k, lim |-> k \in g.present, log |-> log]
                   ELSE IF to \in DOMAIN m
                        THEN [g |-> BindOp(g, left, m[to], a), t |-> m[to], lim |-> BindOk(g, left, m[to], a),
                              log |-> Append(log, [op |-> "bind", v1 |-> left, v2 |-> m[to], a |-> a])]
                   ELSE IF ~NextIdOk(g) THEN [g |-> g, t |-> None, lim |-> FALSE, log |-> log]
                   ELSE LET id == NextIdOf(g)
                            g2 == AddOp(NextIdOp(g), id) IN
                        [g |-> BindOp(g2, left, id, a), t |-> id, lim |-> BindOk(g2, left, id, a),
                         log |-> log \o <<[op |-> "next_id", ret |-> id], [op |-> "add", v |-> id],
                                          [op |-> "bind", v1 |-> left, v2 |-> id, a |-> a]>>]
       IN IF ~step.lim THEN [g |-> g, m |-> m, lim |-> FALSE, log |-> log]
          ELSE LET r == MergeRec(step.g, h, step.t, to, m, lim, step.log) IN
               MergeKids(r.g, h, left, right, r.m, i + 1, r.lim, r.log)
MergeOp(g, h, left, right) ==
  LET r == MergeRec(g, h, left, right, <<>>, left \in g.present /\ right \in h.present, <<>>) IN
  [g |-> r.g, m |-> r.m, lim |-> r.lim, log |-> r.log,
   ok |-> Cardinality(DOMAIN r.m) = Cardinality(h.present),
   missed |-> h.present \ DOMAIN r.m]

(* ----------------------------- script deployment ----------------------- *)
\* A program is a sequence of commands [c |-> "ADD", v], [c |-> "BIND", v1, v2, a], [c |-> "PUT", v, d]; a vertex
\* reference is [k |-> "lit", id] or [k |-> "var", name].  Deploying it is the textual-order fold of the core operators;
\* each variable stands for ONE next_id() result, taken at its first mention (a BIND evaluates v1 before v2).  The
\* variable table belongs to one deployment.  `lim` turns FALSE when a step leaves the limits / preconditions.
ResolveRef(st, ref) ==
  IF ref.k = "lit" THEN [g |-> st.g, tab |-> st.tab, id |-> ref.id, lim |-> st.lim]
  ELSE IF ref.name \in DOMAIN st.tab THEN [g |-> st.g, tab |-> st.tab, id |-> st.tab[ref.name], lim |-> st.lim]
  ELSE IF ~NextIdOk(st.g) THEN [g |-> st.g, tab |-> st.tab, id |-> 0, lim |-> FALSE]
  ELSE [g |-> NextIdOp(st.g), tab |-> (ref.name :> NextIdOf(st.g)) @@ st.tab, id |-> NextIdOf(st.g), lim |-> st.lim]
DeployStep(st, cmd) ==
  IF ~st.lim THEN st
  ELSE IF cmd.c = "ADD" THEN
       LET r == ResolveRef(st, cmd.v) IN
       IF r.lim /\ AddOk(r.g, r.id) THEN [g |-> AddOp(r.g, r.id), tab |-> r.tab, lim |-> TRUE] ELSE [st EXCEPT !.lim = FALSE]
  ELSE IF cmd.c = "BIND" THEN
       LET r1 == ResolveRef(st, cmd.v1)
           r2 == ResolveRef([g |-> r1.g, tab |-> r1.tab, lim |-> r1.lim], cmd.v2) IN
       IF r2.lim /\ r1.id \in IdsOf(r2.g) /\ r2.id \in IdsOf(r2.g) /\ BindOk(r2.g, r1.id, r2.id, cmd.a)
       THEN [g |-> BindOp(r2.g, r1.id, r2.id, cmd.a), tab |-> r2.tab, lim |-> TRUE] ELSE [st EXCEPT !.lim = FALSE]
  ELSE LET r == ResolveRef(st, cmd.v) IN
       IF r.lim /\ PutOk(r.g, r.id) THEN [g |-> PutOp(r.g, r.id, cmd.d), tab |-> r.tab, lim |-> TRUE] ELSE [st EXCEPT !.lim = FALSE]
RECURSIVE DeployFrom(_, _, _)
DeployFrom(st, prog, i) == IF i > Len(prog) THEN st ELSE DeployFrom(DeployStep(st, prog[i]), prog, i + 1)
DeployOp(g, prog) == DeployFrom([g |-> g, tab |-> <<>>, lim |-> TRUE], prog, 1)

\* a named family of short programs for the bounded instances (World!WDeploy, SodgX!Deploy): every command kind, a variable
\* used twice, two variables, a literal next to a variable
LitR(i) == [k |-> "lit", id |-> i]
VarR(n) == [k |-> "var", name |-> n]
ScriptFamily(ids, labels, vals) ==
  {<<[c |-> "ADD", v |-> VarR("x")]>>, <<[c |-> "ADD", v |-> VarR("x")], [c |-> "ADD", v |-> VarR("y")]>>}
  \cup {<<[c |-> "ADD", v |-> VarR("x")], [c |-> "PUT", v |-> VarR("x"), d |-> d]>> : d \in vals}
  \cup {<<[c |-> "ADD", v |-> VarR("x")], [c |-> "BIND", v1 |-> LitR(i), v2 |-> VarR("x"), a |-> a]>> : i \in ids, a \in labels}
  \cup {<<[c |-> "ADD", v |-> VarR("x")], [c |-> "BIND", v1 |-> VarR("x"), v2 |-> LitR(i), a |-> a]>> : i \in ids, a \in labels}
  \cup {<<[c |-> "ADD", v |-> LitR(i)], [c |-> "ADD", v |-> VarR("x")]>> : i \in ids}

(* ----------------------------- shape predicates ------------------------ *)
\* the graph, seen from root r, is a tree of present vertices covering everything present
RECURSIVE Below(_, _, _)
Below(g, R, n) == IF n = 0 THEN R
                  ELSE Below(g, R \cup UNION {TargetsOf(g, u) : u \in R}, n - 1)
IsTreeFrom(g, r) ==
  /\ r \in g.present
  /\ Below(g, {r}, Cardinality(g.present)) = g.present
  /\ \A v \in g.present : TargetsOf(g, v) \subseteq g.present
  /\ r \notin UNION {TargetsOf(g, v) : v \in g.present}
  /\ \A t \in g.present \ {r} :
        Cardinality({<<u, i>> \in g.present \X (1..MaxN) : i <= Len(g.edges[u]) /\ g.edges[u][i][2] = t}) = 1

(* ----------------------------- well-formedness ------------------------- *)
WellFormed(g) ==
  /\ g.present \subseteq IdsOf(g)
  /\ \A G \in g.groups : G \subseteq g.present /\ Cardinality(G) >= 2 /\ Cardinality(G) <= MaxGroupSize
  /\ \A G1, G2 \in g.groups : G1 # G2 => G1 \cap G2 = {}
  /\ Cardinality(g.groups) <= MaxGroups
  /\ \A G \in g.groups : \E u \in G : TRUE
  /\ \A v \in IdsOf(g) :
        /\ Len(g.edges[v]) <= MaxN
        /\ \A i, j \in 1..Len(g.edges[v]) : i # j => g.edges[v][i][1] # g.edges[v][j][1]
        /\ (g.st[v] = "empty") <=> (g.val[v] = NoVal)
        /\ v \notin g.present => (g.edges[v] = <<>> /\ g.st[v] = "empty")
  /\ g.nextv \in 0..g.cap
=============================================================================
