------------------------------ MODULE Trace ------------------------------
(***************************************************************************)
(* The judge.  Replays recorded executions of the real library (engine E3, *)
(* and the witness paths engine E2 produces for every mismatch) through    *)
(* the specification's own operators and evaluates each property's         *)
(* predicate ("lens") on every event.                                      *)
(*                                                                         *)
(* One NDJSON line per call: the call, its return value, and the state of  *)
(* every handle it wrote as observed afterwards through the public API     *)
(* (keys, kids, kid) and the hook (data bytes, read status, group          *)
(* partition, allocator position).  A file holds many traces; a "reset"    *)
(* line starts a new one.                                                  *)
(*                                                                         *)
(* The trace spec is deterministic (everything is logged), it never gets   *)
(* stuck on a wrong observation: a failed lens is recorded in `fails`      *)
(* as <<trace id, line, property>> and judging continues as far as the     *)
(* soundness rules of DESIGN.md section 4 allow:                           *)
(*   void  - the call was outside the limits/preconditions (decided by     *)
(*           the spec's guards on the reference state): nothing after it   *)
(*           is judged in that trace;                                      *)
(*   div   - the observed alive set differs from the reference: lenses     *)
(*           stated relative to present vertices stop; C01 goes on,        *)
(*           because SafeState follows the OBSERVED alive set.             *)
(***************************************************************************)
EXTENDS SodgCore, Json, IOUtils, TLCExt

Rec == ndJsonDeserialize(IOEnv.TRACE)

MaxH == 6
Handles == 0..(MaxH - 1)
NullG == [cap |-> 0]
IsNull(g) == g.cap = 0

VARIABLES l,        \* next line
          tid,      \* current trace id
          gs,       \* handle -> reference graph (exact model)
          safe,     \* handle -> C01 history state following the observed alive set
          issued,   \* handle -> ids handed out by the allocator (C05)
          lastobs,  \* handle -> last observation (for independence, C10/C08/C13)
          twin,     \* handle -> [of |-> handle, kind |-> "clone"|"reload"] or none
          lastev,   \* previous event (for mirrored calls)
          void, div,
          ncoll,    \* collections seen so far in this trace (C06)
          fails,    \* set of <<trace, line, property, what>>
          voidat,   \* set of <<trace, line>>: where a trace left the domain
          res       \* the judge's record for the step just taken (see TNext)
tvars == <<l, tid, gs, safe, issued, lastobs, twin, lastev, void, div, ncoll, fails, voidat, res>>

ToSet(s) == {s[i] : i \in DOMAIN s}
SeqMap(s) == [a \in {s[i][1] : i \in DOMAIN s} |-> s[CHOOSE i \in DOMAIN s : s[i][1] = a][2]]
NoDup(s) == \A i, j \in DOMAIN s : i # j => s[i][1] # s[j][1]
Lookup(pairs, k, dflt) == IF \E i \in DOMAIN pairs : pairs[i][1] = k
                          THEN pairs[CHOOSE i \in DOMAIN pairs : pairs[i][1] = k][2] ELSE dflt

(* ------------------------- observations --------------------------------- *)
HasObs(e, h) == \E i \in DOMAIN e.obs : e.obs[i].h = h
ObsOf(e, h) == e.obs[CHOOSE i \in DOMAIN e.obs : e.obs[i].h = h]
Broken(o) == "broken" \in DOMAIN o
ObsKids(o, v) == Lookup(o.kids, v, <<>>)
ObsDat(o, v) == Lookup(o.dat, v, NoVal)
ObsGroups(o) == {ToSet(o.groups[i]) : i \in DOMAIN o.groups}
NoObs == [h |-> -1, alive |-> <<>>, kids |-> <<>>, dat |-> <<>>, unread |-> <<>>, groups |-> <<>>, nextv |-> 0, cap |-> 0]
\* the observable part of an observation (what the public API shows)
Visible(o) == [alive |-> o.alive, kids |-> o.kids, dat |-> o.dat]
Complete(o) == [alive |-> o.alive, kids |-> o.kids, dat |-> o.dat, unread |-> ToSet(o.unread),
                groups |-> ObsGroups(o), nextv |-> o.nextv]

AliveOk(o, g) == ToSet(o.alive) = g.present
EdgesOk(o, g) == \A v \in g.present : NoDup(ObsKids(o, v)) /\ SeqMap(ObsKids(o, v)) = EdgeMap(g, v)
DataOk2(o, g) == \A v \in g.present : ObsDat(o, v) = (IF g.st[v] = "empty" THEN NoVal ELSE g.val[v])
OrderOk(o, g) == \A v \in g.present : ObsKids(o, v) = g.edges[v]
LatentOk(o, g) == ToSet(o.unread) = Unread(g) /\ ObsGroups(o) = g.groups
ObsMatches(o, g) == ~Broken(o) /\ AliveOk(o, g) /\ EdgesOk(o, g) /\ DataOk2(o, g)

(* ------------------------- C01: the weakest GC-safe machine ------------- *)
\* SafeState: present (observed), unread (put, not read since), link (partition induced by
\* the binds among current incarnations), bound (endpoints of a bind since creation)
SafeEmpty == [present |-> {}, unread |-> {}, link |-> {}, bound |-> {}]
ClassOf(s, v) == IF \E C \in s.link : v \in C THEN CHOOSE C \in s.link : v \in C ELSE {v}
Forget(s, R) == [s EXCEPT !.unread = @ \ R, !.bound = @ \ R,
                          !.link = {C \ R : C \in {D \in @ : D \ R # {}}}]
\* may the step from s, by the call (op, v), observed to leave `alive`, happen in a GC-safe system?
SafeAllows(s, op, v, alive) ==
  LET removed == s.present \ alive IN
  removed # {} =>
     /\ op = "data" /\ v \in s.unread
     /\ removed \subseteq ClassOf(s, v)
     /\ removed \subseteq s.bound
     /\ \A u \in removed \ {v} : u \notin s.unread
SafeAdd(s, v) == IF v \in s.present THEN s ELSE Forget(s, {v})
SafeBind(s, v1, v2) ==
  LET C == ClassOf(s, v1) \cup ClassOf(s, v2) IN
  [s EXCEPT !.bound = @ \cup {v1, v2}, !.link = {D \in @ : D \cap C = {}} \cup {C}]
SafePut(s, v) == [s EXCEPT !.unread = @ \cup {v}]
SafeRead(s, v) == [s EXCEPT !.unread = @ \ {v}]
SafeSettle(s, alive) == [Forget(s, s.present \ alive) EXCEPT !.present = alive]

(* ------------------------- slice predicates ------------------------------ *)
PredHolds(p, from, to, label) ==
  CASE p.k = "all" -> TRUE
    [] p.k = "none" -> FALSE
    [] p.k = "lt" -> from < to
    [] p.k = "label_ne" -> label # p.a
    [] p.k = "to_ne" -> to # p.t
    [] p.k = "edge_ne" -> ~(from = p.u /\ to = p.t /\ label = p.a)

(* ------------------------- merge domain ---------------------------------- *)
AllP(f, t, a) == TRUE
EdgeCount(h, R) == LET RECURSIVE Sum(_)
                       Sum(S) == IF S = {} THEN 0 ELSE LET x == CHOOSE y \in S : TRUE IN Len(h.edges[x]) + Sum(S \ {x})
                   IN Sum(R)
\* everything reachable from `right` in h is present and is reached along exactly one path
ReachIsTree(h, right) ==
  LET R == Reach(h, right, AllP) IN
  /\ right \in h.present /\ R \subseteq h.present
  /\ EdgeCount(h, R) = Cardinality(R) - 1
  /\ right \notin UNION {TargetsOf(h, u) : u \in R}
WholeIsTree(g) == g.present # {} /\ \E r \in g.present : IsTreeFrom(g, r)

(* ------------------------- initial state --------------------------------- *)
TInit == /\ l = 1 /\ tid = 0
         /\ gs = [h \in Handles |-> NullG]
         /\ safe = [h \in Handles |-> SafeEmpty]
         /\ issued = [h \in Handles |-> {}]
         /\ lastobs = [h \in Handles |-> NoObs]
         /\ twin = [h \in Handles |-> [of |-> -1, kind |-> "none"]]
         /\ lastev = [op |-> "none"]
         /\ void = FALSE /\ div = FALSE /\ ncoll = 0 /\ fails = {} /\ voidat = {} /\ res = [tid |-> 0]

F(e, prop, what) == <<e.t, l, prop, what>>

\* Every event handler below is a STATE-level operator returning the record of new values (TLC caches LET
\* definitions only outside the action level; written as conjunctions of primed assignments the lenses would be
\* re-evaluated at every reference).  TNext stores that record in res' and copies its fields.
Cur == [tid |-> tid, gs |-> gs, safe |-> safe, issued |-> issued, lastobs |-> lastobs, twin |-> twin,
        lastev |-> lastev, void |-> void, div |-> div, ncoll |-> ncoll, fails |-> fails]
Voided == [Cur EXCEPT !.void = TRUE]
NewObs(e) == [x \in Handles |-> IF HasObs(e, x) /\ ~Broken(ObsOf(e, x)) THEN ObsOf(e, x) ELSE lastobs[x]]

(* ------------------------- reset / end ----------------------------------- *)
Reset(e) ==
  [tid |-> e.t,
   gs |-> [h \in Handles |-> IF h = e.h THEN EmptyG(e.cap) ELSE NullG],
   safe |-> [h \in Handles |-> SafeEmpty],
   issued |-> [h \in Handles |-> {}],
   lastobs |-> [h \in Handles |-> NoObs],
   twin |-> [h \in Handles |-> [of |-> -1, kind |-> "none"]],
   lastev |-> [op |-> "none"],
   void |-> FALSE, div |-> FALSE, ncoll |-> 0, fails |-> fails]

End(e) == IF PrintT(<<"VERDICT", ToJson([fails |-> fails, lines |-> l, voids |-> voidat])>>) THEN Cur ELSE Cur

(* ------------------------- the five mutators ------------------------------ *)
Dom(e, g) ==
  CASE e.op = "add" -> AddOk(g, e.v)
    [] e.op = "bind" -> e.v1 \in IdsOf(g) /\ e.v2 \in IdsOf(g) /\ BindOk(g, e.v1, e.v2, e.a)
    [] e.op = "put" -> PutOk(g, e.v)
    [] e.op = "data" -> DataOk(g, e.v)
    [] e.op = "next_id" -> NextIdOk(g)
Post(e, g) ==
  CASE e.op = "add" -> AddOp(g, e.v)
    [] e.op = "bind" -> BindOp(g, e.v1, e.v2, e.a)
    [] e.op = "put" -> PutOp(g, e.v, e.d)
    [] e.op = "data" -> DataOp(g, e.v)
    [] e.op = "next_id" -> NextIdOp(g)
SafePost(e, s) ==
  CASE e.op = "add" -> SafeAdd(s, e.v)
    [] e.op = "bind" -> SafeBind(s, e.v1, e.v2)
    [] e.op = "put" -> SafePut(s, e.v)
    [] e.op = "data" -> SafeRead(s, e.v)
    [] e.op = "next_id" -> s
\* Limits (C07): the three overruns that must stop with a panic - an id at or above the capacity, the N+1st label of a
\* vertex, the 17th member of a group - every documented precondition otherwise respected.  Everything else outside
\* the domain (15th group, absent or equal bind endpoints, calls on absent vertices, an exhausted allocator) is left open.
Overrun(e, g) ==
  CASE e.op \in {"add", "put", "data"} -> e.v \notin IdsOf(g)
    [] e.op = "bind" ->
         \/ e.v1 \notin IdsOf(g) \/ e.v2 \notin IdsOf(g)
         \/ /\ e.v1 \in g.present /\ e.v2 \in g.present /\ e.v1 # e.v2
            /\ LET g1 == GroupOf(g, e.v1)  g2 == GroupOf(g, e.v2) IN
               \/ (Idx(g.edges[e.v1], e.a) = 0 /\ Len(g.edges[e.v1]) >= MaxN)
               \/ (g1 = {} /\ g2 # {} /\ Cardinality(g2) >= MaxGroupSize)
               \/ (g1 # {} /\ g2 = {} /\ Cardinality(g1) >= MaxGroupSize)
    [] OTHER -> FALSE
SubjectOf(e) == IF e.op \in {"add", "put", "data"} THEN e.v ELSE -1

\* independence: handles the call did not address keep their last observation
OthersSame(e, written) ==
  \A h \in Handles \ written :
     \* (an observation that is inconsistent in itself - kid() against kids(), say - is reported for the handle it belongs to)
     (HasObs(e, h) /\ ~Broken(ObsOf(e, h)) /\ lastobs[h].h = h) => Complete(ObsOf(e, h)) = Complete(lastobs[h])

\* mirrored call on a twin: same return value and same visible state as the original's
MirrorFails(e, o) ==
  IF "mirror" \in DOMAIN e /\ e.mirror /\ twin[e.h].kind # "none" /\ lastev.op = e.op
  THEN LET p == CASE twin[e.h].kind = "clone" -> "C10" [] twin[e.h].kind = "reload" -> "C08" [] OTHER -> twin[e.h].kind
           lo == lastobs[twin[e.h].of] IN
       \* (the original completed this very call - a panic there ends the trace - so a panic here is the copy behaving differently)
       IF e.panic THEN {F(e, p, "the same call panicked on the copy")}
       ELSE (IF e.ret # lastev.ret THEN {F(e, p, "mirrored call returned something else")} ELSE {})
            \cup (IF Broken(o) \/ Visible(o) # Visible(lo) THEN {F(e, p, "twin diverged after the same call")} ELSE {})
  ELSE {}

Mutate(e) ==
  LET h == e.h
      g == gs[h]
      indom == ~IsNull(g) /\ Dom(e, g)
      o == ObsOf(e, h)
      alive == IF Broken(o) THEN safe[h].present ELSE ToSet(o.alive)
  IN
  IF void THEN Voided
  ELSE IF IsNull(g) THEN
     \* a handle whose reference state is unknown (the result of a slice outside C13's domain, say): the call is not judged,
     \* the other handles go on
     [Cur EXCEPT !.lastobs = NewObs(e), !.lastev = [op |-> e.op, ret |-> e.ret]]
  ELSE IF ~indom THEN
     \* outside the domain: nothing more is judged in this trace, except that the three overruns C07 names must panic
     \* ... and that EVERY id next_id() returns is fresh (C05 speaks of every id returned, not of calls with ids to spare:
     \* an allocator that the model holds to be exhausted may panic, or find an id the model did not - but not a used one)
     [Voided EXCEPT !.fails = fails \cup (IF Overrun(e, g) /\ ~e.panic THEN {F(e, "C07", "a limit overrun completed instead of panicking")} ELSE {})
                                     \cup (IF e.op = "next_id" /\ ~e.panic /\ ~div
                                              /\ ~(e.ret \in IdsOf(g) /\ e.ret \notin g.present /\ e.ret \notin issued[h])
                                           THEN {F(e, "C05", "next_id() on an exhausted allocator returned a present, repeated or out-of-range id")} ELSE {})]
  ELSE
  LET g2 == Post(e, g)
      \* ---- C01 on the observed alive set
      c01 == IF e.panic \/ SafeAllows(safe[h], e.op, SubjectOf(e), alive) THEN {}
             ELSE {F(e, "C01", "a vertex disappeared that a GC-safe system keeps")}
      \* ---- C02: alive set equals the reference, no panic
      \* an inconsistent observation (kid() contradicts kids(), keys() not ascending, len() wrong ...) is a C03 matter
      aliveok == ~e.panic /\ ~Broken(o) /\ AliveOk(o, g2)
      groupsok == e.panic \/ Broken(o) \/ e.op # "bind" \/ ObsGroups(o) = g2.groups
      c02 == (IF div \/ aliveok \/ (~e.panic /\ Broken(o)) THEN {}
              ELSE {F(e, "C02", IF e.panic THEN "panic within the limits" ELSE "alive set differs from the reference model")})
             \cup (IF div \/ groupsok THEN {}
                   ELSE {F(e, "C02", "bind: the group partition is not the one the joining rules give (hook)")})
      \* C06: a bind of two ungrouped vertices with fewer than MaxGroups groups alive must form a group (hook), whatever
      \* lived and died before; and once groups have been collected, nothing may panic or survive/die wrongly
      \* (a panic of such a bind is a group that was not formed: the statement promises the group, not only silence)
      formsok == e.op # "bind" \/ GroupOf(g, e.v1) # {} \/ GroupOf(g, e.v2) # {}
                 \/ (~e.panic /\ (Broken(o) \/ \E G \in ObsGroups(o) : e.v1 \in G /\ e.v2 \in G))
      c06 == (IF div \/ formsok THEN {} ELSE {F(e, "C06", "binding two ungrouped vertices did not form a group although fewer than 14 are alive")})
             \cup (IF div \/ aliveok \/ (~e.panic /\ Broken(o)) \/ ncoll = 0 THEN {}
                   ELSE {F(e, "C06", "after earlier collections: panic or alive set differs")})
      brk == IF div \/ e.panic \/ ~Broken(o) THEN {} ELSE {F(e, "C03", "inconsistent answers: " \o o.broken)}
      judge == ~div /\ aliveok
      \* ---- C03
      \* a bind / put / data within the limits that panics has not written (not read back) what the caller asked for:
      \* "kid(v,a) is the target of the most recent bind" fails for a bind that never completes
      c03p == IF ~div /\ e.panic /\ e.op \in {"bind", "put", "data"}
              THEN {F(e, "C03", e.op \o "() within the limits panicked: nothing was written / read back")} ELSE {}
      c03 == IF ~judge THEN c03p
             ELSE (IF EdgesOk(o, g2) THEN {} ELSE {F(e, "C03", "kids/kid differ from the last binds")})
                  \cup (IF DataOk2(o, g2) THEN {} ELSE {F(e, "C03", "data differs from the last put")})
                  \cup (IF e.op = "data" /\ e.ret # DataRet(g, e.v) THEN {F(e, "C03", "data() returned something else")} ELSE {})
      \* ---- C04 (stated on what keys() showed before the call, so it needs no agreement with the reference model)
      wasPresent == IF lastobs[h].h = h THEN e.v \in ToSet(lastobs[h].alive) ELSE e.v \in g.present
      c04 == IF e.op # "add" \/ e.panic \/ Broken(o) THEN {}
             ELSE IF wasPresent
                  THEN (IF e.same THEN {} ELSE {F(e, "C04", "add() on a present vertex changed the graph")})
                  ELSE (IF e.v \in ToSet(o.alive) /\ ObsKids(o, e.v) = <<>> /\ ObsDat(o, e.v) = NoVal /\ e.v \notin ToSet(o.unread)
                        THEN {} ELSE {F(e, "C04", "add() on an absent id did not create a blank vertex")})
      \* ---- C05
      c05 == IF div \/ e.op # "next_id" \/ e.panic THEN {}
             ELSE IF e.ret \in IdsOf(g) /\ e.ret \notin g.present /\ e.ret \notin issued[h] THEN {}
                  ELSE {F(e, "C05", "next_id() returned a present, repeated or out-of-range id")}
      \* ---- C19 (exactness beyond the properties: enumeration order, the id chosen)
      c19 == IF ~judge THEN {}
             ELSE (IF OrderOk(o, g2) THEN {} ELSE {F(e, "X-order", "kids() order differs from the model")})
                  \cup (IF e.op = "next_id" /\ e.ret # NextIdOf(g) THEN {F(e, "X-id", "next_id() differs from the model")} ELSE {})
      lat == IF ~judge \/ LatentOk(o, g2) THEN {} ELSE {F(e, "X-latent", "hook: unread set or group partition differs")}
      c10 == IF OthersSame(e, {h}) THEN {} ELSE {F(e, "C10", "a call changed another handle")}
      c07 == IF e.panic THEN {F(e, "C07", "a call within the limits panicked")} ELSE {}
      mir == MirrorFails(e, o)
  IN
  [Cur EXCEPT
     !.fails = fails \cup c01 \cup c02 \cup c06 \cup c03 \cup brk \cup c04 \cup c05 \cup c19 \cup lat \cup c10 \cup c07 \cup mir,
     !.div = (div \/ ~aliveok),
     !.gs = [gs EXCEPT ![h] = g2],
     !.safe = [safe EXCEPT ![h] = SafeSettle(SafePost(e, @), alive)],
     !.issued = IF e.op = "next_id" /\ ~e.panic THEN [issued EXCEPT ![h] = @ \cup {e.ret}] ELSE issued,
     !.lastobs = NewObs(e),
     !.lastev = [op |-> e.op, ret |-> e.ret],
     !.ncoll = IF ~(g.present \subseteq g2.present) THEN ncoll + 1 ELSE ncoll]

(* ------------------------- clone / save+load ------------------------------ *)
Twin(e) ==
  LET h == e.h
      d == e.dst
      g == gs[h]
      kind == e.op
      p == IF kind = "clone" THEN "C10" ELSE "C08"
  IN
  IF void \/ IsNull(g) THEN Voided
  ELSE
  LET ok == e.ret = "ok" /\ HasObs(e, d) /\ ~Broken(ObsOf(e, d))
      od == ObsOf(e, d)
      src == IF h # d /\ HasObs(e, h) /\ ~Broken(ObsOf(e, h)) THEN ObsOf(e, h) ELSE lastobs[h]
      \* the copy shows what the original shows (visible), and has the same hidden GC state
      same == ok /\ Visible(od) = Visible(src) /\ ToSet(od.unread) = ToSet(src.unread) /\ ObsGroups(od) = ObsGroups(src)
      pos == ok /\ (IF kind = "clone" THEN od.nextv = src.nextv ELSE od.nextv \in {0, src.nextv})
      c == (IF ok THEN {} ELSE {F(e, p, "the call failed or the copy is inconsistent")})
           \cup (IF ~ok \/ same THEN {} ELSE {F(e, p, "the copy differs from the original")})
           \cup (IF ~ok \/ pos THEN {} ELSE {F(e, IF kind = "clone" THEN "C10" ELSE "C08", "allocator position of the copy")})
      c01 == IF (h = d \/ lastobs[h].h # h \/ ToSet(src.alive) = ToSet(lastobs[h].alive)) /\ (~ok \/ safe[h].present \subseteq ToSet(od.alive))
             THEN {} ELSE {F(e, "C01", "clone/save/load removed a vertex")}
      c10 == IF OthersSame(e, {d}) THEN {} ELSE {F(e, p, "the call changed another handle (or its source)")}
      g2 == IF kind = "clone" THEN CloneOp(g) ELSE [ReloadOp(g) EXCEPT !.nextv = IF ok THEN od.nextv ELSE 0]
  IN
  [Cur EXCEPT
     !.fails = fails \cup c \cup c01 \cup c10,
     !.gs = [gs EXCEPT ![d] = g2],
     !.safe = [safe EXCEPT ![d] = safe[h]],
     !.issued = [issued EXCEPT ![d] = IF kind = "clone" THEN issued[h] ELSE {}],
     !.lastobs = NewObs(e),
     !.twin = IF h = d THEN twin ELSE [twin EXCEPT ![d] = [of |-> h, kind |-> kind]],
     !.lastev = [op |-> e.op, ret |-> e.ret],
     !.div = (div \/ ~ok)]

(* ------------------------- save now, load later (C08) ----------------------- *)
\* The checkpoint file is a snapshot in time: save() writes the graph as it is now, the original lives on, load() - any
\* number of calls later - returns the graph that was SAVED (allocator restarted), not the one the original has become.
\* The file's content is kept as the reference graph of the reserved handle FileH (with the C01 history of that moment).
FileH == MaxH - 1
SaveEv(e) ==
  LET h == e.h
      g == gs[h] IN
  IF void \/ IsNull(g) THEN Voided
  ELSE
  [Cur EXCEPT
     !.fails = fails \cup (IF e.ret = "ok" THEN {} ELSE {F(e, "C08", "save() of a graph failed")})
                     \cup (IF e.panic \/ e.same THEN {} ELSE {F(e, "C08", "save() changed the graph it saved")})
                     \cup (IF OthersSame(e, {}) THEN {} ELSE {F(e, "C08", "save() changed another handle")}),
     !.gs = [gs EXCEPT ![FileH] = IF div \/ e.ret # "ok" THEN NullG ELSE g],
     !.safe = [safe EXCEPT ![FileH] = safe[h]],
     !.lastobs = NewObs(e),
     !.lastev = [op |-> e.op, ret |-> e.ret]]
LoadEv(e) ==
  LET d == e.dst
      f == gs[FileH] IN
  IF void \/ div \/ IsNull(f) THEN Voided
  ELSE
  LET ok == e.ret = "ok" /\ HasObs(e, d) /\ ~Broken(ObsOf(e, d))
      od == ObsOf(e, d)
      g2 == [ReloadOp(f) EXCEPT !.nextv = IF ok THEN od.nextv ELSE 0]
      same == ok /\ ObsMatches(od, g2) /\ LatentOk(od, g2) /\ OrderOk(od, g2)
      pos == ok /\ od.nextv \in {0, f.nextv}
  IN
  [Cur EXCEPT
     !.fails = fails \cup (IF ok THEN {} ELSE {F(e, "C08", "load() of a complete checkpoint failed or returned an inconsistent graph")})
                     \cup (IF ~ok \/ same THEN {} ELSE {F(e, "C08", "the loaded graph is not the graph that was saved (the original has moved on since)")})
                     \cup (IF ~ok \/ pos THEN {} ELSE {F(e, "C08", "allocator position of the loaded graph")})
                     \cup (IF OthersSame(e, {d}) THEN {} ELSE {F(e, "C08", "load() changed another handle")}),
     !.gs = [gs EXCEPT ![d] = g2],
     !.safe = [safe EXCEPT ![d] = safe[FileH]],
     !.issued = [issued EXCEPT ![d] = {}],
     !.lastobs = NewObs(e),
     !.twin = [twin EXCEPT ![d] = [of |-> -1, kind |-> "none"]],
     !.lastev = [op |-> e.op, ret |-> e.ret],
     !.div = (div \/ ~ok \/ ~same)]

(* ------------------------- slice ------------------------------------------ *)
SliceEv(e) ==
  LET h == e.h
      d == e.dst
      g == gs[h]
      P(f, t, a) == PredHolds(e.p, f, t, a)
  IN
  IF void \/ div \/ IsNull(g) THEN Voided
  ELSE IF e.v \notin IdsOf(g) THEN
     \* C07: slicing from an id at or above the capacity is a limit overrun, which must panic
     [Voided EXCEPT !.fails = fails \cup (IF e.panic THEN {} ELSE {F(e, "C07", "a limit overrun (slice from an id at or above the capacity) completed instead of panicking")})]
  ELSE IF ~SliceOk(g, e.v, P) THEN
     \* outside the domain of C13 (more than 14 reachable vertices, a dangling edge, ...): this slice is not judged and
     \* its result is unknown to the reference; the rest of the trace goes on
     [Cur EXCEPT !.gs = [gs EXCEPT ![d] = NullG], !.lastobs = NewObs(e), !.lastev = [op |-> e.op, ret |-> e.ret],
                 !.twin = [twin EXCEPT ![d] = [of |-> -1, kind |-> "none"]]]
  ELSE
  LET ok == e.ret = "ok" /\ HasObs(e, d) /\ ~Broken(ObsOf(e, d))
      od == ObsOf(e, d)
      K == Reach(g, e.v, P)
      ref == SliceOp(g, e.v, P)
      Acc(v) == {<<g.edges[v][i][1], g.edges[v][i][2]>> : i \in {j \in 1..Len(g.edges[v]) :
                     g.edges[v][j][2] \in K /\ P(v, g.edges[v][j][2], g.edges[v][j][1])}}
      Src(v) == {<<g.edges[v][i][1], g.edges[v][i][2]>> : i \in {j \in 1..Len(g.edges[v]) : g.edges[v][j][2] \in K}}
      Got(v) == {<<ObsKids(od, v)[i][1], ObsKids(od, v)[i][2]>> : i \in DOMAIN ObsKids(od, v)}
      c13 == (IF ok THEN {} ELSE {F(e, "C13", "slice failed, panicked or returned an inconsistent graph")})
             \cup (IF ~ok \/ ToSet(od.alive) = K THEN {} ELSE {F(e, "C13", "kept vertices are not exactly the reachable ones")})
             \cup (IF ~ok \/ ToSet(od.alive) # K \/ \A v \in K : Acc(v) \subseteq Got(v) /\ Got(v) \subseteq Src(v) /\ NoDup(ObsKids(od, v))
                   THEN {} ELSE {F(e, "C13", "edges of the slice: an accepted edge is missing or a foreign edge appears")})
             \cup (IF OthersSame(e, {d}) THEN {} ELSE {F(e, "C13", "slice changed its source")})
             \cup (IF ~HasObs(e, h) \/ Broken(ObsOf(e, h)) \/ safe[h].present \subseteq ToSet(ObsOf(e, h).alive) THEN {}
                   ELSE {F(e, "C01", "slice removed a vertex of its source")})
      xs == IF ok /\ ObsMatches(od, ref) /\ LatentOk(od, ref) THEN {} ELSE {F(e, "X-slice", "slice differs from the exact model")}
  IN
  [Cur EXCEPT
     !.fails = fails \cup c13 \cup xs,
     !.gs = [gs EXCEPT ![d] = IF ok /\ ObsMatches(od, ref) THEN ref ELSE NullG],
     !.safe = [safe EXCEPT ![d] = [present |-> ref.present, unread |-> {}, bound |-> ref.present, link |-> {ref.present}]],
     !.issued = [issued EXCEPT ![d] = {}],
     !.lastobs = NewObs(e),
     !.lastev = [op |-> e.op, ret |-> e.ret]]

(* ------------------------- merge ------------------------------------------ *)
\* Where do the vertices of h's tree land in the OBSERVED result?  Follow the labels from `left`.
RECURSIVE PathMap(_, _, _, _)
PathMap(hh, o, x, gv) ==
  {<<x, gv>>} \cup
  UNION {PathMap(hh, o, hh.edges[x][i][2],
                 IF gv = -1 THEN -1 ELSE Lookup(ObsKids(o, gv), hh.edges[x][i][1], -1)) : i \in 1..Len(hh.edges[x])}
\* the model's result with its NEW vertices renamed by rho (the property allows any fresh ids)
RenG(g2, rho, nextv) ==
  LET Ren(v) == IF v \in DOMAIN rho THEN rho[v] ELSE v
      Src(u) == IF \E v \in g2.present : Ren(v) = u THEN CHOOSE v \in g2.present : Ren(v) = u ELSE -1 IN
  [cap |-> g2.cap,
   present |-> {Ren(v) : v \in g2.present},
   edges |-> [u \in IdsOf(g2) |-> IF Src(u) = -1 THEN <<>>
                ELSE [i \in 1..Len(g2.edges[Src(u)]) |-> <<g2.edges[Src(u)][i][1], Ren(g2.edges[Src(u)][i][2])>>]],
   val |-> [u \in IdsOf(g2) |-> IF Src(u) = -1 THEN NoVal ELSE g2.val[Src(u)]],
   st |-> [u \in IdsOf(g2) |-> IF Src(u) = -1 THEN "empty" ELSE g2.st[Src(u)]],
   groups |-> {{Ren(v) : v \in G} : G \in g2.groups},
   nextv |-> nextv]

MergeEv(e) ==
  LET h == e.h
      s == e.src
      g == gs[h]
      hh == gs[s]
  IN
  IF ~void /\ ~IsNull(g) /\ ~IsNull(hh) /\ (e.left \notin IdsOf(g) \/ e.right \notin IdsOf(hh)) THEN
     \* C07: a vertex id at or above the capacity of the graph it is looked up in - a limit overrun, which must panic
     [Voided EXCEPT !.fails = fails \cup (IF e.panic THEN {} ELSE {F(e, "C07", "a limit overrun (merge of an id at or above the capacity) completed instead of panicking")})]
  ELSE
  IF void \/ div \/ IsNull(g) \/ IsNull(hh) \/ e.left \notin g.present \/ e.right \notin hh.present
        \/ ~ReachIsTree(hh, e.right) \/ ~MergeOp(g, hh, e.left, e.right).lim THEN Voided
  ELSE
  LET r == MergeOp(g, hh, e.left, e.right)
      o == ObsOf(e, h)
      good == ~e.panic /\ ~Broken(o)
      alive == IF good THEN ToSet(o.alive) ELSE safe[h].present
      both == WholeIsTree(g) /\ r.ok                       \* the domain of C11: two trees
      pm == IF good THEN PathMap(hh, o, e.right, e.left) ELSE {}
      total == good /\ \A p \in pm : p[2] # -1
      rho == IF total THEN [v \in {r.m[p[1]] : p \in pm} |-> (CHOOSE p \in pm : r.m[p[1]] = v)[2]] ELSE <<>>
      renok == /\ total
               /\ \A v1, v2 \in DOMAIN rho : v1 # v2 => rho[v1] # rho[v2]              \* distinct h vertices on distinct g vertices
               /\ \A v \in DOMAIN rho \cap g.present : rho[v] = v                      \* existing vertices keep their place
               /\ \A v \in DOMAIN rho \ g.present : rho[v] \in IdsOf(g) \ g.present   \* new ones under ids that were not present
      g2 == IF renok THEN RenG(r.g, rho, o.nextv) ELSE r.g
      c01 == IF safe[h].present \subseteq alive THEN {} ELSE {F(e, "C01", "merge removed a vertex")}
      c12 == IF e.panic THEN {F(e, "C12", "merge panicked")}
             ELSE IF r.ok THEN (IF e.ret = "ok" THEN {} ELSE {F(e, "C12", "complete merge reported an error")})
             ELSE (IF e.ret = "err" /\ "missed" \in DOMAIN e /\ \A v \in r.missed : \E i \in 1..Len(e.missed) : e.missed[i] = v
                   THEN {} ELSE {F(e, "C12", "incomplete merge reported Ok or did not name the missed vertices")})
      c11 == IF ~both THEN {}
             ELSE (IF good /\ e.ret = "ok" THEN {} ELSE {F(e, "C11", "merge of two trees failed")})
                  \cup (IF ~good \/ renok THEN {} ELSE {F(e, "C11", "a path of the right tree is missing, two right vertices share a left vertex, or a new vertex took a present id")})
                  \cup (IF ~good \/ ~renok \/ ObsMatches(o, g2) THEN {} ELSE {F(e, "C11", "merged graph differs: data, surplus/lost vertices or edges")})
                  \cup (IF ~good \/ ~renok \/ ~ObsMatches(o, g2) \/ LatentOk(o, g2) THEN {} ELSE {F(e, "X-latent", "merge: unread set or group partition differs")})
                  \cup (IF HasObs(e, s) /\ lastobs[s].h = s /\ Complete(ObsOf(e, s)) # Complete(lastobs[s])
                        THEN {F(e, "C11", "merge changed the right graph")} ELSE {})
      xm == IF ~both \/ ~good \/ ObsMatches(o, r.g) THEN {} ELSE {F(e, "X-id", "merge chose other ids than the model")}
      \* C05: the vertices merge creates (the ends of the right tree's paths that the left graph lacked, as the model knows them)
      \* lie on ids that were neither present nor handed out before
      c05 == (IF ~good \/ (ToSet(o.alive) \ g.present) \cap (g.present \cup issued[h]) = {} THEN {}
              ELSE {F(e, "C05", "merge created a vertex under a present or previously issued id")})
             \cup (IF both /\ total /\ \E v \in DOMAIN rho \ g.present : rho[v] \in g.present
                   THEN {F(e, "C05", "a vertex created by merge coincides with a vertex that was present")} ELSE {})
      aliveok == good /\ AliveOk(o, g2)
      img == {r.m[x] : x \in DOMAIN r.m}
  IN
  [Cur EXCEPT
     !.fails = fails \cup c01 \cup c12 \cup c11 \cup c05 \cup xm,
     !.gs = [gs EXCEPT ![h] = g2],
     !.safe = [safe EXCEPT ![h] =
        LET imgobs == {p[2] : p \in pm} \ {-1}
            C == imgobs \cup UNION {ClassOf(safe[h], v) : v \in imgobs} IN
        SafeSettle([@ EXCEPT !.unread = @ \cup {p[2] : p \in {q \in pm : q[2] # -1 /\ hh.st[q[1]] # "empty"}},
                             !.bound = @ \cup (IF Cardinality(imgobs) > 1 THEN imgobs ELSE {}),
                             !.link = {D \in @ : D \cap C = {}} \cup {C}], alive)],
     !.issued = [issued EXCEPT ![h] = @ \cup (alive \ g.present)],
     !.lastobs = NewObs(e),
     !.lastev = [op |-> e.op, ret |-> e.ret],
     !.div = (div \/ ~aliveok \/ (both /\ ~renok))]

(* ------------------------- pairing two handles for side-by-side judging ------------------------- *)
\* "pair": handle e.h is from now on judged side by side with handle e.of, differences booked under property e.kind
\* (used for C11: a copy of the left graph receives the API calls the merge amounts to - the model's log - and must
\* stay indistinguishable from the merged graph, also under the reads that follow).
\* "compare": the two handles must show and hide the same state now.
PairEv(e) == [Cur EXCEPT !.twin = [twin EXCEPT ![e.h] = [of |-> e.of, kind |-> e.kind]], !.lastev = [op |-> e.op, ret |-> "unit"]]
CompareEv(e) ==
  LET a == lastobs[e.h]
      b == lastobs[twin[e.h].of] IN
  IF void \/ twin[e.h].kind = "none" \/ a.h # e.h \/ b.h # twin[e.h].of THEN Cur
  ELSE [Cur EXCEPT !.fails = fails \cup
          (IF Complete(a) = Complete(b) THEN {}
           ELSE {F(e, twin[e.h].kind, "the merged graph differs from the same graph after the API calls the merge amounts to"
                                      \o (IF Visible(a) = Visible(b) THEN " (hidden GC state only)" ELSE ""))})]

(* ------------------------- new (a second, empty graph) --------------------- *)
NewEv(e) ==
  [Cur EXCEPT
     !.gs = [gs EXCEPT ![e.h] = EmptyG(e.cap)],
     !.safe = [safe EXCEPT ![e.h] = SafeEmpty],
     !.issued = [issued EXCEPT ![e.h] = {}],
     !.lastobs = NewObs(e),
     !.twin = [twin EXCEPT ![e.h] = [of |-> -1, kind |-> "none"]],
     !.lastev = [op |-> e.op, ret |-> e.ret]]

(* ------------------------- next -------------------------------------------- *)
(* ------------------------- read-only observers: exports, Debug, v_print, inspect ---------- *)
\* The harness parsed the text back into facts: nodes (in printed order), edges <<v, label, to>>, data <<v, bytes>>.
EdgeList(g) == UNION {{<<v, g.edges[v][i][1], g.edges[v][i][2]>> : i \in 1..Len(g.edges[v])} : v \in g.present}
Once(seq, x) == Cardinality({i \in DOMAIN seq : seq[i] = x}) = 1
\* Labels are printed through Display, and Display is not injective on label VALUES: a Str with a blank inside prints
\* like the Str without it, a Str of one character like the Greek label of that character.  e.pr lists <<token, printed
\* text>> for the labels of the run that do not print as their token; edges are compared as BAGS of printed entries
\* (two edges of a vertex whose labels print alike and lead to the same vertex must both be there).
PrOf(e, a) == IF "pr" \in DOMAIN e /\ \E i \in DOMAIN e.pr : e.pr[i][1] = a
              THEN e.pr[CHOOSE i \in DOMAIN e.pr : e.pr[i][1] = a][2] ELSE a
PrEdge(e, x) == <<x[1], PrOf(e, x[2]), x[3]>>
CountIn(seq, x) == Cardinality({i \in DOMAIN seq : seq[i] = x})
EdgeBagOk(e, want) ==
  /\ Len(e.edges) = Cardinality(want)
  /\ \A x \in want : CountIn(e.edges, PrEdge(e, x)) = Cardinality({y \in want : PrEdge(e, y) = PrEdge(e, x)})
FactsOk(e, g) ==
  /\ e.wellformed
  /\ e.nodes = SetToSeq(g.present)                                    \* one node per present vertex, ascending, none else
  /\ EdgeBagOk(e, EdgeList(g))
  /\ Len(e.data) = Cardinality({v \in g.present : g.st[v] # "empty"})
  /\ \A v \in g.present : g.st[v] # "empty" => Once(e.data, <<v, g.val[v]>>)
ExportEv(e) ==
  LET g == gs[e.h]
      p == IF e.op \in {"xml", "dot"} THEN "C18" ELSE "C20" IN
  IF void \/ div \/ IsNull(g) THEN Cur          \* a read-only observer never ends the judging of a trace
  ELSE [Cur EXCEPT !.fails = fails
          \cup (IF FactsOk(e, g) THEN {} ELSE {F(e, p, e.op \o ": the printed vertices, edges or data are not exactly those of the graph")})
          \cup (IF e.stable THEN {} ELSE {F(e, p, e.op \o ": two graphs with the same vertices, edges and data print differently")})]
\* Known finding D9 (KNOWN_FINDINGS.txt): v_print prints the data marker as the prefix "Δ, " and the labels in enumeration
\* order; a vertex WITHOUT data whose first label is the character Δ and that has further labels prints exactly what a
\* vertex WITH data and those further labels prints.  Nothing else is excused.
KnownVPrintDelta(e, g) ==
  /\ e.wellformed /\ g.st[e.v] = "empty" /\ Len(g.edges[e.v]) >= 2 /\ g.edges[e.v][1][1] = "Δ"
  /\ e.marker /\ e.labels = [i \in 1..(Len(g.edges[e.v]) - 1) |-> PrOf(e, g.edges[e.v][i + 1][1])]
VPrintEv(e) ==
  LET g == gs[e.h] IN
  IF void \/ div \/ IsNull(g) \/ e.v \notin g.present THEN Cur
  ELSE IF KnownVPrintDelta(e, g) THEN [Cur EXCEPT !.fails = fails \cup {F(e, "C20", "KNOWN:D9-vprint-delta-label: v_print of a vertex without data whose first label is the character Δ reads as data marker plus the remaining labels")}]
  ELSE [Cur EXCEPT !.fails = fails
          \cup (IF e.wellformed /\ (e.marker <=> g.st[e.v] # "empty") THEN {} ELSE {F(e, "C20", "v_print: data marker wrong")})
          \cup (IF e.wellformed /\ Len(e.labels) = Len(g.edges[e.v])
                   /\ \A a \in LabelsOf(g, e.v) : CountIn(e.labels, PrOf(e, a)) = Cardinality({b \in LabelsOf(g, e.v) : PrOf(e, b) = PrOf(e, a)}) THEN {}
                 ELSE {F(e, "C20", "v_print: labels are not exactly those of the vertex")})]
InspectEv(e) ==
  LET g == gs[e.h]
      R == Reach(g, e.v, AllP)
      want == UNION {{<<u, g.edges[u][i][1], g.edges[u][i][2]>> : i \in 1..Len(g.edges[u])} : u \in R} IN
  IF ~void /\ ~div /\ ~IsNull(g) /\ e.v \in g.present /\ ~(R \subseteq g.present) THEN
     \* edges that dangle (their target was collected): WHAT inspect lists there is left open, but it is a call within the
     \* limits on a present vertex and must come back ("terminates on every graph")
     [Cur EXCEPT !.fails = fails \cup (IF "panicked" \in DOMAIN e /\ e.panicked THEN {F(e, "C20", "inspect: panicked on a graph with dangling edges")} ELSE {})]
  ELSE
  IF void \/ div \/ IsNull(g) \/ e.v \notin g.present \/ ~(R \subseteq g.present) THEN Cur   \* dangling edges: left open
  ELSE [Cur EXCEPT !.fails = fails
          \cup (IF e.wellformed /\ EdgeBagOk(e, want) THEN {}
                 ELSE {F(e, "C20", "inspect: does not list every reachable edge exactly once (or failed / did not parse)")})]

(* ------------------------- script deployment (C14) ------------------------------------------ *)
\* e.prog: the structured program the text was rendered from; e.fault_at = k > 0: the text was corrupted at command k
\* (a class the property requires to be rejected): Err, after the commands before it were applied.
\* e.direct: what the same API calls did to a copy of the graph (the property's own statement).
DeployEv(e) ==
  LET h == e.h
      g == gs[h]
      n == IF e.fault_at = 0 THEN Len(e.prog) ELSE e.fault_at - 1
      r == DeployFrom([g |-> g, tab |-> <<>>, lim |-> TRUE], SubSeq(e.prog, 1, n), 1) IN
  IF void \/ div \/ IsNull(g) \/ ~r.lim THEN Voided
  ELSE
  LET g2 == r.g
      o == ObsOf(e, h)
      good == ~e.panic /\ ~Broken(o)
      retok == IF e.fault_at = 0 THEN e.ret = "count:" \o ToString(Len(e.prog)) ELSE e.ret = "err"
      dir == e.direct
      sameasapi == good /\ ~Broken(dir) /\ Complete(o) = Complete(dir)
      \* "exactly what the same API calls would do": when the same calls, applied directly to a copy, panic as well (an allocator
      \* with another - legitimate - id policy running out of ids, say), the panic is not the script's
      dirpanic == "panicked" \in DOMAIN dir /\ dir.panicked
      c14 == (IF ~e.panic \/ dirpanic THEN {} ELSE {F(e, "C14", "deploying the script panicked (the same API calls do not)")})
             \cup (IF e.panic \/ retok THEN {} ELSE {F(e, "C14", IF e.fault_at = 0 THEN "a well-formed script failed or returned a wrong count"
                                                                                   ELSE "a malformed command was not rejected with Err")})
             \cup (IF ~good \/ sameasapi THEN {} ELSE {F(e, "C14", "the script's effect differs from the same API calls")})
      xs == IF ~good \/ (ObsMatches(o, g2) /\ LatentOk(o, g2) /\ o.nextv = g2.nextv) THEN {} ELSE {F(e, "X-script", "the script's effect differs from the exact model")}
      \* ids the script allocated for its variables: newly present and not named as a literal by the script itself
      lits == {e.prog[i].v.id : i \in {j \in 1..n : e.prog[j].c \in {"ADD", "PUT"} /\ e.prog[j].v.k = "lit"}}
              \cup {e.prog[i].v1.id : i \in {j \in 1..n : e.prog[j].c = "BIND" /\ e.prog[j].v1.k = "lit"}}
              \cup {e.prog[i].v2.id : i \in {j \in 1..n : e.prog[j].c = "BIND" /\ e.prog[j].v2.k = "lit"}}
      allocated == IF good THEN (ToSet(o.alive) \ g.present) \ lits ELSE {}
      c05 == IF allocated \cap issued[h] = {} THEN {}
             ELSE {F(e, "C05", "a script variable was given a previously issued id")}
      aliveok == good /\ AliveOk(o, g2)
  IN
  [Cur EXCEPT
     !.fails = fails \cup c14 \cup xs \cup c05,
     !.gs = [gs EXCEPT ![h] = g2],
     !.safe = [safe EXCEPT ![h] = SafeSettle([@ EXCEPT !.unread = @ \cup Unread(g2), !.bound = @ \cup UNION g2.groups,
                                                         !.link = IF g2.present = {} THEN {} ELSE {g2.present}],
                                             IF good THEN ToSet(o.alive) ELSE safe[h].present)],
     !.issued = [issued EXCEPT ![h] = @ \cup {r.tab[x] : x \in DOMAIN r.tab} \cup allocated],
     !.lastobs = NewObs(e),
     !.lastev = [op |-> e.op, ret |-> e.ret],
     !.div = (div \/ ~aliveok)]

(* ------------------------- truncated image (C09) -------------------------------------------- *)
\* the file left behind by save() was cut at byte k (0 <= k < size of the file): load() must return an error
TruncLoadEv(e) ==
  IF void \/ IsNull(gs[e.h]) THEN Cur
  ELSE [Cur EXCEPT !.fails = fails \cup
          (IF e.k < e.size
           THEN (IF e.ret = "err" THEN {} ELSE {F(e, "C09", IF e.ret = "ok" THEN "a truncated image was loaded as a graph" ELSE "load() of a truncated image panicked")})
           ELSE (IF e.ret = "complete-image-rejected" THEN {F(e, "C08", "the complete image written by save() does not load")} ELSE {}))]

Judge(e) ==
  CASE e.op = "reset" -> Reset(e)
    [] e.op = "end" -> End(e)
    [] e.op \in {"add", "bind", "put", "data", "next_id"} -> Mutate(e)
    [] e.op \in {"clone", "reload"} -> Twin(e)
    [] e.op = "save" -> SaveEv(e)
    [] e.op = "load" -> LoadEv(e)
    [] e.op = "slice" -> SliceEv(e)
    [] e.op = "merge" -> MergeEv(e)
    [] e.op = "new" -> NewEv(e)
    [] e.op \in {"xml", "dot", "debug", "display"} -> ExportEv(e)
    [] e.op = "vprint" -> VPrintEv(e)
    [] e.op = "inspect" -> InspectEv(e)
    [] e.op = "deploy" -> DeployEv(e)
    [] e.op = "truncload" -> TruncLoadEv(e)
    [] e.op = "pair" -> PairEv(e)
    [] e.op = "compare" -> CompareEv(e)

TNext ==
  /\ l <= Len(Rec)
  /\ l' = l + 1
  /\ res' = Judge(Rec[l])
  /\ tid' = res'.tid /\ gs' = res'.gs /\ safe' = res'.safe /\ issued' = res'.issued /\ lastobs' = res'.lastobs
  /\ twin' = res'.twin /\ lastev' = res'.lastev /\ void' = res'.void /\ div' = res'.div /\ ncoll' = res'.ncoll
  /\ fails' = res'.fails
  /\ voidat' = IF ~void /\ void' THEN voidat \cup {<<tid, l>>} ELSE voidat

TSpec == TInit /\ [][TNext]_tvars

Accepted == IF TLCGet("stats").diameter - 1 = Len(Rec) THEN TRUE
            ELSE Print(<<"STUCK at line", TLCGet("stats").diameter, Rec[TLCGet("stats").diameter]>>, FALSE)
=============================================================================
