------------------------------ MODULE Label ------------------------------
(***************************************************************************)
(* The helper machine of C17: label texts and label values.  A text is a   *)
(* sequence of SYMBOLS (names standing for characters of every UTF-8       *)
(* length: "alpha" is the alpha sign, "rho" 2 bytes, "euro" 3 bytes, "phi" *)
(* 4 bytes, "sp" a blank ...).  Parse is three-valued: texts the property  *)
(* requires to be accepted (with the label they denote), texts it requires *)
(* to be rejected, and texts it leaves open (empty, containing a blank,    *)
(* alpha + leading zero, alpha + sign).                                    *)
(***************************************************************************)
EXTENDS Naturals, Sequences, FiniteSets, TLC
Symbols == {"alpha", "d0", "d1", "d5", "plus", "a", "Z", "rho", "euro", "phi", "sp", "bsl", "quo", "apo", "adig", "ctl"}   \* backslash, quote, apostrophe, a control character (U+0001):
                                                                                 \* characters a printer may be tempted to escape; "adig": a digit that is not ASCII (Arabic-Indic three)
Digits == {"d0", "d1", "d5"}
DigitVal(d) == CASE d = "d0" -> 0 [] d = "d1" -> 1 [] d = "d5" -> 5
RECURSIVE Num(_, _)
Num(s, acc) == IF s = <<>> THEN acc ELSE Num(Tail(s), 10 * acc + DigitVal(Head(s)))
Elems(s) == {s[i] : i \in 1..Len(s)}

Greek(c) == [k |-> "greek", c |-> c]
Alpha(n) == [k |-> "alpha", n |-> n]
Str(s) == [k |-> "str", s |-> s]

Class(t) ==
  IF t = <<>> \/ "sp" \in Elems(t) THEN "unspecified"
  ELSE IF Len(t) > 8 THEN "err"
  ELSE IF t[1] = "alpha" THEN
       LET tl == Tail(t) IN
       IF tl = <<>> THEN "err"
       ELSE IF tl[1] = "plus" /\ Len(tl) > 1 /\ Elems(Tail(tl)) \subseteq Digits THEN "unspecified"
       ELSE IF ~(Elems(tl) \subseteq Digits) THEN "err"
       ELSE IF Len(tl) > 1 /\ tl[1] = "d0" THEN "unspecified"
       ELSE "ok"
  ELSE "ok"
\* the label a required-Ok text denotes
ParseL(t) == IF t[1] = "alpha" THEN Alpha(Num(Tail(t), 0))
            ELSE IF Len(t) = 1 THEN Greek(t[1]) ELSE Str(t)
RECURSIVE DigitsOf(_)
DigitsOf(n) == IF n < 10 THEN <<CASE n = 0 -> "d0" [] n = 1 -> "d1" [] n = 5 -> "d5" [] OTHER -> "dX">>
               ELSE DigitsOf(n \div 10) \o DigitsOf(n % 10)
PrintL(l) == CASE l.k = "greek" -> <<l.c>>
              [] l.k = "alpha" -> <<"alpha">> \o DigitsOf(l.n)
              [] l.k = "str" -> l.s

\* all texts up to length n, and structured longer ones (every prefix kind, every fill, every last symbol)
RECURSIVE Texts(_)
Texts(n) == IF n = 0 THEN {<<>>} ELSE LET T == Texts(n - 1) IN T \cup {Append(t, x) : t \in {u \in T : Len(u) = n - 1}, x \in Symbols}
Rep(x, n) == [i \in 1..n |-> x]
Heads == {<<>>, <<"alpha">>, <<"alpha", "alpha">>, <<"alpha", "plus">>, <<"alpha", "d0">>, <<"alpha", "d1">>, <<"rho">>, <<"phi">>, <<"a", "sp">>, <<"a", "euro">>}
Long(lo, hi) == {h \o Rep(x, L - Len(h)) : h \in Heads, x \in Symbols, L \in lo..hi}
                \cup {h \o Rep(x, L - Len(h) - 1) \o <<y>> : h \in Heads, x \in {"d1", "a", "rho"}, y \in Symbols, L \in lo..hi}
=============================================================================
