----------------------------- MODULE MC_ImplR -----------------------------
(* SodgImpl on a restricted alphabet (as SodgR for the abstract model): 4-5 ids, several groups alive at once, the slot
   table smaller than the number of groups the ids allow, so that slot exhaustion and re-use are part of the closure. *)
EXTENDS SodgImpl
CONSTANTS BindPairs, PutIds, DataIds, AddIds
INextR == \/ \E v \in AddIds : IAdd(v)
          \/ \E v \in DataIds : IData(v)
          \/ \E v \in PutIds, d \in Vals : IPut(v, d)
          \/ \E p \in BindPairs, a \in Labels : IBind(p \div 10, p % 10, a)
ISpecR == IInit /\ [][INextR]_ivars
=============================================================================
