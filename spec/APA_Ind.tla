------------------------------ MODULE APA_Ind ------------------------------
(* SodgInd at fixed sizes for Apalache (6 ids, 3 usable slots of 4: full groups, slot exhaustion and several groups
   at once are all inside the invariant's state set).  tools/apalache_ind.sh runs the four obligations and two probes
   that must FAIL (a rule of the pinned tree; a reachability probe), so that the proof cannot be vacuous. *)
EXTENDS Integers, FiniteSets
VARIABLES
  \* @type: Int -> Int;
  tag,
  \* @type: Int -> Str;
  pers,
  \* @type: Int -> Set(Int);
  members,
  \* @type: Int -> Int;
  counter,
  \* @type: Str;
  last
INSTANCE SodgInd WITH Cap <- 6, NSlots <- 5, SlotSize <- 4
\* must be violated at length 0 from IndInit: a full group whose members all hold unread data is inside the invariant
ProbeFullGroup == \A v \in Ids : tag[v] # 3 \/ pers[v] # "stored" \/ Cardinality(members[3]) < 4
=============================================================================
