------------------------------ MODULE SodgR ------------------------------
(***************************************************************************)
(* A restricted alphabet for larger instances: the same machine, but only  *)
(* some (v1,v2) pairs may be bound, only some vertices take data and only  *)
(* some are read.  Exhaustive over ALL histories within that alphabet, of  *)
(* any length; used to reach 4-5 ids (two or three groups alive at once,   *)
(* cross-group edges, slot recycling) with a manageable transition system. *)
(***************************************************************************)
EXTENDS SodgX
CONSTANTS BindPairs,   \* set of numbers 10*v1 + v2 (cfg files cannot hold tuples)
          PutIds, DataIds, AddIds, WithNextId
NextR == \/ \E v \in AddIds : Add(v)
         \/ \E v \in DataIds : Data(v)
         \/ \E v \in PutIds, d \in Vals : Put(v, d)
         \/ \E p \in BindPairs, a \in Labels : Bind(p \div 10, p % 10, a)
         \/ (WithNextId /\ NextId)
         \/ Clone \/ Reload
SpecR == Init /\ [][NextR]_vars
\* the same with slices (observer transitions, self-loops)
NextR2 == NextR \/ \E v \in Ids, p \in Preds : Slice(v, p)
NextR3 == NextR \/ \E v \in Ids : Inspect(v)
NextR4 == NextR \/ \E prog \in ScriptFamily(Ids, Labels, Vals) : Deploy(prog)
=============================================================================
