----------------------------- MODULE MC_ImplInd -----------------------------
(* TLC: the implementation-shaped specification (fixed rules) refines SodgInd, the set-based module whose invariant
   Apalache shows to be inductive.  Member lists map to their sets; calls other than add/bind/put/data map to Other. *)
EXTENDS SodgImpl
Ind == INSTANCE SodgInd WITH tag <- tag, pers <- pers, counter <- counter,
                             members <- [s \in Slots |-> ToSet(members[s])],
                             last <- IF ev.op \in {"init", "add", "bind", "put", "data"} THEN ev.op ELSE "other"
RefinesInd == Ind!Spec
IndInvHolds == Ind!IndInv
=============================================================================
