SPECIFICATION HSpec
VIEW hview
CONSTANTS Cap = 3 Labels = {"a"} Vals = {"x"} MaxN = 1 MaxGroups = 14 MaxGroupSize = 16
INVARIANT TypeOK
INVARIANT GroupsAreLinked
PROPERTY RefinesSafe
CHECK_DEADLOCK FALSE
